------------------------------ MODULE Readers -------------------------------
(***************************************************************************)
(* C16: analysis is read-only, copy-safe and safe for concurrent readers.  *)
(* N reader processes share one analyzed Spec.  Query(r, q) returns        *)
(* Answer(q) computed from the index; Scribble(r) lets the client add or   *)
(* delete entries in a map it was handed.  With Alias = FALSE the getters  *)
(* hand out copies, so nothing a client does changes the index; with       *)
(* Alias = TRUE (negative control) a getter returns the internal map and   *)
(* TLC must find the violation.                                            *)
(***************************************************************************)
EXTENDS Naturals, FiniteSets, TLC

CONSTANTS Readers, Queries, Alias
\* abstract index: each query is answered by a set of entries; MapQueries are those that hand out maps
MapQueries == { q \in Queries : q[1] = "map" }
Entries == {"e1", "e2"}

VARIABLES doc, index, held, res, stepc
vars == <<doc, index, held, res, stepc>>

Index0 == [q \in Queries |-> {"e1"}]
Init == /\ doc = "doc0" /\ index = Index0
        /\ held = [r \in Readers |-> [q \in MapQueries |-> "none"]]   \* "none" | "copy" | "alias"
        /\ res = [r \in Readers |-> [q \in Queries |-> {"e1"}]]
        /\ stepc = 0

Query(r, q) ==
  /\ stepc < 6
  /\ res' = [res EXCEPT ![r][q] = index[q]]
  /\ held' = IF q \in MapQueries THEN [held EXCEPT ![r][q] = IF Alias THEN "alias" ELSE "copy"] ELSE held
  /\ stepc' = stepc + 1
  /\ UNCHANGED <<doc, index>>

\* the client mutates a map it was handed: only an aliased map reaches the index
Scribble(r, q, e) ==
  /\ stepc < 6 /\ q \in MapQueries /\ held[r][q] # "none"
  /\ index' = IF held[r][q] = "alias" THEN [index EXCEPT ![q] = IF e \in @ THEN @ \ {e} ELSE @ \cup {e}] ELSE index
  /\ stepc' = stepc + 1
  /\ UNCHANGED <<doc, held, res>>

Next == \E r \in Readers : (\E q \in Queries : Query(r, q)) \/ (\E q \in MapQueries, e \in Entries : Scribble(r, q, e))
Spec == Init /\ [][Next]_vars

\* every answer ever given is the answer a sequential caller gets on the unmodified document
ReadOnly == doc = "doc0" /\ index = Index0 /\ \A r \in Readers, q \in Queries : res[r][q] = Index0[q]
=============================================================================
