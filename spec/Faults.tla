------------------------------- MODULE Faults -------------------------------
(***************************************************************************)
(* C09: Flatten fails safe.  The pipeline as a state machine over          *)
(* (phase, loads, outcome) with an injected fault: the failAt-th document  *)
(* load fails (0 = none), and possibly a $ref that cannot be resolved.     *)
(* Every phase that loads or resolves propagates the failure unless        *)
(* ContinueOnError; every behaviour ends in Return.                        *)
(***************************************************************************)
EXTENDS Naturals, Sequences, TLC, FaultsAccept

CONSTANTS MaxLoads, MaxRounds

Phases == <<"expand", "normalize", "dropShared", "import", "nameInline", "stripPointers", "removeUnused", "croak">>
LoadingPhases == {"expand", "import", "stripPointers"}     \* ExpandSpec, ResolveRefWithBase, DeepestRef

VARIABLES pc, loads, failAt, cont, unres, failed, outcome, rounds
vars == <<pc, loads, failAt, cont, unres, failed, outcome, rounds>>

Init == /\ pc = 1 /\ loads = 0 /\ failed = FALSE /\ outcome = "running" /\ rounds = 0
        /\ failAt \in 0..MaxLoads /\ cont \in BOOLEAN /\ unres \in BOOLEAN

\* a document load in a loading phase; the failAt-th one fails
Load ==
  /\ outcome = "running" /\ Phases[pc] \in LoadingPhases /\ loads < MaxLoads
  /\ loads' = loads + 1
  /\ IF loads + 1 = failAt
     THEN /\ failed' = TRUE
          /\ IF cont THEN outcome' = outcome /\ pc' = pc ELSE outcome' = "error" /\ pc' = pc
     ELSE UNCHANGED <<failed, outcome, pc>>
  /\ UNCHANGED <<failAt, cont, unres, rounds>>

\* resolving a $ref that does not resolve (remote definition, anonymous pointer)
Resolve ==
  /\ outcome = "running" /\ Phases[pc] \in LoadingPhases /\ unres
  /\ IF cont THEN UNCHANGED outcome ELSE outcome' = "error"
  /\ failed' = TRUE
  /\ UNCHANGED <<pc, loads, failAt, cont, unres, rounds>>

\* the import loop and the pointer/OAIGen loop iterate a bounded number of times
Again ==
  /\ outcome = "running" /\ Phases[pc] \in {"import", "stripPointers"} /\ rounds < MaxRounds
  /\ rounds' = rounds + 1
  /\ UNCHANGED <<pc, loads, failAt, cont, unres, failed, outcome>>

Advance ==
  /\ outcome = "running" /\ pc < Len(Phases)
  /\ pc' = pc + 1 /\ rounds' = 0
  /\ UNCHANGED <<loads, failAt, cont, unres, failed, outcome>>

Return ==
  /\ outcome = "running" /\ pc = Len(Phases)
  /\ outcome' = "ok"
  /\ UNCHANGED <<pc, loads, failAt, cont, unres, failed, rounds>>

Next == Load \/ Resolve \/ Again \/ Advance \/ Return
Spec == Init /\ [][Next]_vars /\ WF_vars(Advance) /\ WF_vars(Return)

FailSafe   == outcome = "ok" => (~failed \/ cont)
Terminates == <>(outcome # "running")

=============================================================================
