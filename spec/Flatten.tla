------------------------------ MODULE Flatten -------------------------------
(***************************************************************************)
(* L2: the flatten pipeline as operations on attributed trees, one per     *)
(* critical section of flatten.go / flatten_name.go.  The same operators   *)
(* serve (a) the step-level conformance pass Trace_FlattenSteps, where the *)
(* arguments the code chose (targets, keys, generated names) are bound     *)
(* from hook events, and (b) the exhaustive pipeline model MC_Flatten,     *)
(* where they are chosen by the model.                                     *)
(*                                                                         *)
(*   DropShared        removeUnusedShared                                  *)
(*   ImportNew/Known   importNewRef / importKnownRef (one remote target)   *)
(*   NameOne           InlineSchemaNamer.Name for one key (no dependants)  *)
(*   RemovePass        removeUnusedSinglePass                              *)
(*   ExpandShared      expand() with SkipSchemas (parameters, responses,   *)
(*                     path items)                                         *)
(* Pointer naming and OAIGen de-duplication are specified relationally     *)
(* (FlattenProps: phase contracts), not constructively.                    *)
(***************************************************************************)
EXTENDS FlattenProps, Classify

DefPath(n) == <<"definitions", n>>
RefToDef(n) == Mk(("$ref" :> <<"root", "definitions", n>>), <<>>)

\* ---- step 3 -----------------------------------------------------------------------------------------
DropShared(doc) == [doc EXCEPT !.ch = [c \in DOMAIN doc.ch \ {"parameters", "responses"} |-> doc.ch[c]]]

\* ---- step 4: import one remote target under a (logged or chosen) name -----------------------------------
\* every holder key gets the canonical local $ref (the holder keeps nothing else: in W holders are pure $refs)
RECURSIVE Retarget(_, _, _)
Retarget(doc, keys, name) ==
  IF keys = {} THEN doc
  ELSE LET k == CHOOSE x \in keys : TRUE
       IN IF ~Has(doc, k) THEN Retarget(doc, keys \ {k}, name)      \* a key that does not resolve: the code fails there (C04)
          ELSE Retarget(SetAt(doc, k, [At(doc, k) EXCEPT !.at = ("$ref" :> <<"root", "definitions", name>>) @@ @]), keys \ {k}, name)
\* the schema copied from the auxiliary document: its inner $refs are absolute in the abstraction, which is what RebaseRef must achieve
ImportNew(b0, doc, target, name, keys) ==
  LET d1 == Retarget(doc, keys, name)
      defs == IF "definitions" \in DOMAIN d1.ch THEN d1.ch["definitions"] ELSE Empty
  IN IF ~Valid(b0, target) THEN d1
     ELSE [d1 EXCEPT !.ch = ("definitions" :> [defs EXCEPT !.ch = (name :> NodeAt(b0, target)) @@ @]) @@ @]
ImportKnown(doc, name, keys) == Retarget(doc, keys, name)
\* holders of a remote target in a document
HoldersOf(doc, target) == { x[1] : x \in { y \in RefsIn(doc) : y[2] = target } }
RemoteTargets(doc) == { x[2] : x \in { y \in RefsIn(doc) : y[2][1] # "root" } }

\* ---- step 5: name one inline schema (no anonymous pointer depends on it) -----------------------------------
\* sch is the schema being named: the one at key, or - when the namer yields several names for one key (a path-level body
\* parameter is named once per operation of the path) - the ORIGINAL schema, which the code cloned before the first rewrite
NameSchema(doc, key, name, marker, sch) ==
  IF ~Has(doc, key) THEN doc ELSE
  LET d1   == SetAt(doc, key, RefToDef(name))
      defs == IF "definitions" \in DOMAIN d1.ch THEN d1.ch["definitions"] ELSE Empty
  IN [d1 EXCEPT !.ch = ("definitions" :> [defs EXCEPT !.ch = (name :> SetAttr(sch, "x-go-gen-location", marker)) @@ @]) @@ @]
NameOne(doc, key, name, marker) == IF ~Has(doc, key) THEN doc ELSE NameSchema(doc, key, name, marker, At(doc, key))
MarkerFor(key) == IF key # <<>> /\ key[1] = "paths" THEN "operations" ELSE IF key # <<>> /\ key[1] = "definitions" THEN "models" ELSE ""

\* ---- step 6: anonymous pointers (namePointers / flattenAnonPointer) and OAIGen de-duplication (stripOAIGenForRef),
\* one operation per hook event, arguments as logged ---------------------------------------------------------------
IsTopLevelRef(r) == Len(r) = 3 /\ r[1] = "root" /\ r[2] = "definitions"
\* replace.DeepestRef: follow a chain of pointers down to the first top-level definition, or to the last pointer
RECURSIVE Deepest(_, _, _)
Deepest(doc, r, fuel) ==
  IF IsTopLevelRef(r) \/ fuel = 0 \/ r[1] # "root" \/ ~Has(doc, Tail(r)) THEN r
  ELSE LET n == At(doc, Tail(r)) IN IF HasRef(n) THEN Deepest(doc, RefOf(n), fuel - 1) ELSE r
SetRefAt(doc, key, r) == IF ~Has(doc, key) THEN doc ELSE SetAt(doc, key, [At(doc, key) EXCEPT !.at = ("$ref" :> r) @@ @])
\* InlineSchemaNamer.Name also re-targets every anonymous pointer whose chain now ends on the new definition
Dependants(doc, name) ==
  { x[1] : x \in { y \in RefsIn(doc) : ~IsTopLevelRef(y[2]) /\ y[2][1] = "root" /\ Deepest(doc, y[2], 16) = <<"root", "definitions", name>> } }
\* every $ref to a place strictly inside `old` follows the schema to `new`
RECURSIVE RebaseSet(_, _, _, _)
RebaseSet(doc, xs, old, new) ==
  IF xs = {} THEN doc
  ELSE LET x == CHOOSE y \in xs : TRUE
       IN RebaseSet(SetRefAt(doc, x[1], new \o SubSeq(x[2], Len(old) + 1, Len(x[2]))), xs \ {x}, old, new)
RebaseInto(doc, old, new) == RebaseSet(doc, { x \in RefsIn(doc) : IsPrefixOf(old, x[2]) /\ Len(x[2]) > Len(old) }, old, new)
NameWithDependants(doc, key, name, marker, sch) ==
  LET d1 == NameSchema(doc, key, name, marker, sch)
      d2 == IF Has(doc, key) THEN RebaseInto(d1, <<"root">> \o key, <<"root", "definitions", name>>) ELSE d1   \* (repo fix 62d799a)
  IN Retarget(d2, Dependants(d2, name), name)
\* a pointer whose chain ends on a top-level definition is replaced by that $ref
PointerTop(doc, key, r) == SetRefAt(doc, key, r)
\* a pointer to a simple schema with a single caller is expanded in place (the schema at the target, not expanded further)
PointerExpanded(doc, key, r) ==
  IF ~Has(doc, key) \/ r[1] # "root" \/ ~Has(doc, Tail(r)) THEN doc ELSE SetAt(doc, key, At(doc, Tail(r)))
\* stripOAIGenForRef: the definition at defPath is re-inlined into the first parent, the other parents point to the first, the definition goes
RECURSIVE PointAll(_, _, _)
PointAll(doc, ps, r) == IF ps = <<>> THEN doc ELSE PointAll(SetRefAt(doc, Head(ps), r), Tail(ps), r)
StripOne(doc, defPath, parents) ==
  IF parents = <<>> \/ ~Has(doc, defPath) \/ ~Has(doc, parents[1]) THEN doc
  ELSE LET sch == At(doc, defPath)
           d1  == SetAt(doc, parents[1], sch)
           d2  == PointAll(d1, Tail(parents), <<"root">> \o parents[1])
           d3  == DelAt(d2, defPath)
       IN RebaseInto(d3, <<"root">> \o defPath, <<"root">> \o parents[1])           \* (repo fix 744069f)

\* ---- step 7: one pass of unused-definition removal ------------------------------------------------------
Unused(doc)     == { n \in Defs(doc) : DefPos(n) \notin Targeted(doc) }
RemovePass(doc) ==
  IF Unused(doc) = {} THEN doc
  ELSE IF Unused(doc) = Defs(doc) THEN [doc EXCEPT !.ch = [c \in DOMAIN @ \ {"definitions"} |-> @[c]]]   \* an empty section is not serialized
  ELSE [doc EXCEPT !.ch = ("definitions" :> [doc.ch["definitions"] EXCEPT !.ch = [n \in DOMAIN @ \ Unused(doc) |-> @[n]]]) @@ @]
RECURSIVE RemoveAll(_)
RemoveAll(doc) == IF Unused(doc) = {} THEN doc ELSE RemoveAll(RemovePass(doc))

\* ---- step 1 with SkipSchemas: parameters, responses and path items are replaced by what they refer to ----------
\* (schema $refs are left alone; the targets are shared objects of the root or of an auxiliary document, whose
\*  own schema $refs become absolute, i.e. stay what they are in the abstraction)
RECURSIVE ExpandSharedAt(_, _, _, _)
ExpandSharedAt(b, n, t, fuel) ==
  IF t \in {"param", "response", "pathItem"} /\ HasRef(n) /\ fuel > 0 /\ Valid(b, RefOf(n))
  THEN ExpandSharedAt(b, NodeAt(b, RefOf(n)), t, fuel - 1)
  ELSE IF t \in {"schema", "schemaMap", "schemaList", "opaque"} THEN n
  ELSE [n EXCEPT !.ch = [l \in DOMAIN n.ch |-> ExpandSharedAt(b, n.ch[l], ChildType(t, n, l, n.ch[l], {}, TRUE), fuel)]]
ExpandShared(b) == ExpandSharedAt(b, RootOf(b), "swagger", 8)

\* ---- step 1 in Expand mode: every $ref is replaced by its (recursively expanded) target, except a $ref whose
\* target is already being expanded further up (a cycle), which stays in place ------------------------------------
RECURSIVE ExpandNode(_, _, _, _)
ExpandNode(b, n, stack, fuel) ==
  IF HasRef(n) THEN
     LET t == RefOf(n) IN
     IF t \in stack \/ ~Valid(b, t) \/ fuel = 0 THEN n
     ELSE ExpandNode(b, NodeAt(b, t), stack \cup {t}, fuel - 1)
  ELSE [n EXCEPT !.ch = [l \in DOMAIN n.ch |-> ExpandNode(b, n.ch[l], stack, fuel)]]
ExpandAll(b) ==
  LET r == RootOf(b) IN
  [r EXCEPT !.ch = [c \in DOMAIN r.ch |->
      IF c = "definitions"
      THEN [r.ch[c] EXCEPT !.ch = [d \in DOMAIN r.ch[c].ch |-> ExpandNode(b, r.ch[c].ch[d], {<<"root", "definitions", d>>}, 24)]]
      ELSE ExpandNode(b, r.ch[c], {}, 24)]]

\* ---- step 4 as a loop: import remote targets until none is left (names: the target's own, suffixed on collision) --------
ImportName(doc, t, resolved) ==
  IF t \in DOMAIN resolved THEN resolved[t]
  ELSE LET n == Last(t) IN IF n \in Defs(doc) THEN n \o "OAIGen" ELSE n
RECURSIVE ImportLoop(_, _, _, _)
ImportLoop(b0, doc, resolved, fuel) ==
  LET R == RemoteTargets(doc) IN
  IF R = {} \/ fuel = 0 THEN doc
  ELSE LET t  == CHOOSE x \in R : TRUE          \* the code sorts them; any order gives the same result without collisions
           nm == ImportName(doc, t, resolved)
           d2 == IF t \in DOMAIN resolved THEN ImportKnown(doc, nm, HoldersOf(doc, t))
                 ELSE ImportNew(b0, doc, t, nm, HoldersOf(doc, t))
       IN ImportLoop(b0, d2, (t :> nm) @@ resolved, fuel - 1)

\* ---- step 5 as a loop: name every inline complex schema, deepest first ---------------------------------------------------
RECURSIVE JoinPath(_)
JoinPath(p) == IF p = <<>> THEN "" ELSE Head(p) \o (IF Len(p) > 1 THEN "." ELSE "") \o JoinPath(Tail(p))
GenName(key) == "gen:" \o JoinPath(key)
RECURSIVE NameLoop(_, _)
NameLoop(doc, fuel) ==
  LET I == InlineComplex(doc, {}) IN
  IF I = {} \/ fuel = 0 THEN doc
  ELSE LET k == CHOOSE x \in I : \A y \in I : Len(y) <= Len(x)
       IN NameLoop(NameOne(doc, k, GenName(k), MarkerFor(k)), fuel - 1)

\* ---- step 6 as a loop (namePointers + flattenAnonPointer): the DECISIONS, for bundles without name collisions -----------------
\* every anonymous pointer, deepest holder first (among holders of equal depth the code orders by key: any order is explored
\* by taking an arbitrary one, the result must not depend on it for the properties to hold)
AnonPointers(doc) == { x \in RefsIn(doc) : x[2][1] = "root" /\ ~IsTopLevelRef(x[2]) }
UnderShared(r) == Len(r) >= 2 /\ r[2] \in {"parameters", "responses"}
RECURSIVE PointerLoop(_, _)
PointerLoop(doc, fuel) ==
  LET P == AnonPointers(doc) IN
  IF P = {} \/ fuel = 0 THEN doc
  ELSE LET x  == CHOOSE y \in P : \A z \in P : Len(z[1]) <= Len(y[1])
           k  == x[1]
           t  == Deepest(doc, x[2], 16)
       IN IF IsTopLevelRef(t) THEN PointerLoop(PointerTop(doc, k, t), fuel - 1)
          ELSE IF ~Has(doc, Tail(t)) THEN doc          \* does not resolve: the code returns an error (outside W)
          ELSE LET callers == { y \in P : Deepest(doc, y[2], 16) = t }
                   simple  == ClassifyAt(("root" :> doc), t, {"date", "date-time", "uuid", "email"}).IsSimpleSchema
               IN IF (~simple \/ Cardinality(callers) > 1) /\ ~UnderShared(t)
                  THEN PointerLoop(NameWithDependants(doc, Tail(t), GenName(Tail(t)), MarkerFor(Tail(t)), At(doc, Tail(t))), fuel - 1)
                  ELSE PointerLoop(PointerExpanded(doc, k, t), fuel - 1)
\* stripPointersAndOAIGen without collisions: pointers, then (full mode) whatever complex schema an expansion inlined, until stable
RECURSIVE Phase6(_, _, _)
Phase6(doc, mode, fuel) ==
  LET d1 == PointerLoop(doc, 32)
      d2 == IF mode = "full" THEN NameLoop(d1, 32) ELSE d1
  IN IF d2 = doc \/ fuel = 0 THEN d2 ELSE Phase6(d2, mode, fuel - 1)

\* ---- the whole pipeline, for bundles without name collisions ------------------------------
Phase1(b0, mode)   == IF mode = "expand" THEN ExpandAll(b0) ELSE ExpandShared(b0)
Phase3(doc, ru)    == IF ru THEN DropShared(doc) ELSE doc
Phase4(b0, doc)    == ImportLoop(b0, doc, <<>>, 16)
Phase5(doc, mode)  == IF mode = "full" THEN NameLoop(doc, 32) ELSE doc
Phase7(doc, ru)    == IF ru THEN RemoveAll(doc) ELSE doc
FlattenModel(b0, mode, ru) == Phase7(Phase6(Phase5(Phase4(b0, Phase3(Phase1(b0, mode), ru)), mode), mode, 4), ru)
=============================================================================
