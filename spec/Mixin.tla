------------------------------- MODULE Mixin --------------------------------
(***************************************************************************)
(* analysis.Mixin as a state machine over attributed trees (C17, C18):     *)
(* the primary document absorbs mixin after mixin; each step applies, in   *)
(* the code's order, extensions, scalars, info, externalDocs, list unions, *)
(* keyed sections, and the operation-id renaming of merged paths.          *)
(*                                                                         *)
(*   OPERATIONAL: MixStep / MixAll   (what the implementation must equal)  *)
(*   DECLARATIVE: FirstWins, ListUnion, ScalarFill, CollisionCount, IdsOK  *)
(*                (the statement of the properties; TLC checks that the    *)
(*                operational definition satisfies them on every history)  *)
(*                                                                         *)
(* xa = the set of attribute / child names that start with "x-".           *)
(***************************************************************************)
EXTENDS Swagger

KeyedSections == {"securityDefinitions", "definitions", "paths", "parameters", "responses"}
ListAttrs     == {"consumes", "produces", "schemes"}
InfoScalars   == {"description", "title", "termsOfService", "version"}

AttrOr(n, a, d)  == IF a \in DOMAIN n.at THEN n.at[a] ELSE d
HasKid(n, c)     == c \in DOMAIN n.ch
ChildMap(n, s)   == IF s \in DOMAIN n.ch THEN n.ch[s].ch ELSE <<>>
SeqAttr(n, a)    == IF a \in DOMAIN n.at THEN n.at[a] ELSE <<>>
KidList(n, c)    == IF c \in DOMAIN n.ch THEN ListSeq(n.ch[c]) ELSE <<>>
Restrict(f, S)   == [x \in DOMAIN f \cap S |-> f[x]]
Without(f, S)    == [x \in DOMAIN f \ S |-> f[x]]

\* ---- extensions: "x-" attributes (scalar values) and "x-" children (object values) ---------------
ExtAt(n, xa)  == Restrict(n.at, xa)
ExtCh(n, xa)  == Restrict(n.ch, xa)
ExtKeys(n, xa) == (DOMAIN n.at \cup DOMAIN n.ch) \cap xa
\* first wins; returns the merged node (only its x- members change)
MergeExt(p, m, xa) ==
  [p EXCEPT !.at = @ @@ Restrict(ExtAt(m, xa), DOMAIN m.at \ ExtKeys(p, xa)),
            !.ch = @ @@ Restrict(ExtCh(m, xa), DOMAIN m.ch \ ExtKeys(p, xa))]
ExtCollisions(p, m, xa) == Cardinality(ExtKeys(p, xa) \cap ExtKeys(m, xa))

FillAttrs(p, m, S) ==
  [p EXCEPT !.at = @ @@ [a \in { b \in S \cap DOMAIN m.at : b \notin DOMAIN p.at } |-> m.at[a]]]

\* ---- info / contact / license / externalDocs -----------------------------------------------------
MergePart(p, m, scalars, xa) == FillAttrs(MergeExt(p, m, xa), m, scalars)

MergeInfo(pi, mi, xa) ==
  LET base == MergePart(pi, mi, InfoScalars, xa)
      sub(c, sc) == IF ~HasKid(pi, c) THEN (IF HasKid(mi, c) THEN (c :> mi.ch[c]) ELSE <<>>)
                    ELSE IF HasKid(mi, c) THEN (c :> MergePart(pi.ch[c], mi.ch[c], sc, xa)) ELSE (c :> pi.ch[c])
  IN [base EXCEPT !.ch = sub("contact", {"name", "url", "email"}) @@ sub("license", {"name", "url"}) @@ @]
InfoCollisions(pi, mi, xa) ==
  ExtCollisions(pi, mi, xa)
  + (IF HasKid(pi, "contact") /\ HasKid(mi, "contact") THEN ExtCollisions(pi.ch["contact"], mi.ch["contact"], xa) ELSE 0)
  + (IF HasKid(pi, "license") /\ HasKid(mi, "license") THEN ExtCollisions(pi.ch["license"], mi.ch["license"], xa) ELSE 0)

\* ---- lists -----------------------------------------------------------------------------------------
RECURSIVE AppendNew(_, _)
AppendNew(acc, s) == IF s = <<>> THEN acc
                     ELSE IF Head(s) \in Range(acc) THEN AppendNew(acc, Tail(s))
                     ELSE AppendNew(Append(acc, Head(s)), Tail(s))
\* tags are matched by name
RECURSIVE AppendTags(_, _)
AppendTags(acc, s) == IF s = <<>> THEN acc
                      ELSE IF \E i \in DOMAIN acc : AttrOr(acc[i], "name", "") = AttrOr(Head(s), "name", "") THEN AppendTags(acc, Tail(s))
                      ELSE AppendTags(Append(acc, Head(s)), Tail(s))
SameTag(a, b) == AttrOr(a, "name", "") = AttrOr(b, "name", "")
\* how many elements of s are skipped when appended one by one
RECURSIVE SkippedTags(_, _)
SkippedTags(acc, s) ==
  IF s = <<>> THEN 0
  ELSE IF \E i \in DOMAIN acc : SameTag(acc[i], Head(s)) THEN 1 + SkippedTags(acc, Tail(s))
  ELSE SkippedTags(Append(acc, Head(s)), Tail(s))
RECURSIVE SkippedReqs(_, _)
SkippedReqs(acc, s) ==
  IF s = <<>> THEN 0
  ELSE IF Head(s) \in Range(acc) THEN 1 + SkippedReqs(acc, Tail(s))
  ELSE SkippedReqs(Append(acc, Head(s)), Tail(s))

SetList(n, c, seq) == IF seq = <<>> THEN [n EXCEPT !.ch = Without(@, {c})] ELSE [n EXCEPT !.ch = (c :> ListOf(seq)) @@ @]
SetSeqAttr(n, a, seq) == IF seq = <<>> THEN [n EXCEPT !.at = Without(@, {a})] ELSE [n EXCEPT !.at = (a :> seq) @@ @]

\* ---- operation ids -----------------------------------------------------------------------------------
OpsOfItem(pi)  == { m \in Methods : m \in DOMAIN pi.ch }
IdOf(op)       == AttrOr(op, "operationId", "")
PathMethods(doc) == { pm \in (DOMAIN ChildMap(doc, "paths")) \X Methods : pm[2] \in DOMAIN ChildMap(doc, "paths")[pm[1]].ch }
IdBag(doc)     == [pm \in PathMethods(doc) |-> IdOf(ChildMap(doc, "paths")[pm[1]].ch[pm[2]])]
AllIds(doc)    == { IdBag(doc)[pm] : pm \in PathMethods(doc) } \ {""}
Renamed(id, i) == id \o "Mixin" \o ToString(i)

\* merge the path items of m that the primary lacks, renaming colliding ids; ids = ids known so far
RECURSIVE MergeItemOps(_, _, _, _)
MergeItemOps(pi, ms, ids, i) ==      \* returns <<path item, ids>>
  IF ms = {} THEN <<pi, ids>>
  ELSE LET m  == CHOOSE x \in ms : TRUE
           op == pi.ch[m]
           id == IdOf(op)
       IN IF id = "" THEN MergeItemOps(pi, ms \ {m}, ids, i)
          ELSE LET id2 == IF id \in ids THEN Renamed(id, i) ELSE id
                   op2 == [op EXCEPT !.at = ("operationId" :> id2) @@ @]
               IN MergeItemOps([pi EXCEPT !.ch = (m :> op2) @@ @], ms \ {m}, ids \cup {id2}, i)
RECURSIVE MergePathSet(_, _, _, _, _)
MergePathSet(acc, mp, ks, ids, i) == \* acc: merged child map of paths; returns <<child map, ids>>
  IF ks = {} THEN <<acc, ids>>
  ELSE LET k == CHOOSE x \in ks : TRUE
           r == MergeItemOps(mp[k], OpsOfItem(mp[k]), ids, i)
       IN MergePathSet((k :> r[1]) @@ acc, mp, ks \ {k}, r[2], i)

\* ---- one step: absorb mixin m (the i-th, from 0) into p ------------------------------------------------
SetSection(n, s, cm) == IF DOMAIN cm = {} /\ ~HasKid(n, s) THEN n
                        ELSE [n EXCEPT !.ch = (s :> [at |-> (IF HasKid(n, s) THEN n.ch[s].at ELSE <<>>), ch |-> cm]) @@ @]

MixStep(st, m, i, xa) ==   \* st = [doc, skipped, ids]
  LET p   == st.doc
      \* 1. root extensions, host, basePath
      p1  == FillAttrs(MergeExt(p, m, xa), m, {"host", "basePath"})
      \* 2. info, externalDocs
      p2  == IF ~HasKid(p1, "info") THEN (IF HasKid(m, "info") THEN [p1 EXCEPT !.ch = ("info" :> m.ch["info"]) @@ @] ELSE p1)
             ELSE IF HasKid(m, "info") THEN [p1 EXCEPT !.ch = ("info" :> MergeInfo(p1.ch["info"], m.ch["info"], xa)) @@ @] ELSE p1
      p3  == IF ~HasKid(p2, "externalDocs") THEN (IF HasKid(m, "externalDocs") THEN [p2 EXCEPT !.ch = ("externalDocs" :> m.ch["externalDocs"]) @@ @] ELSE p2)
             ELSE IF HasKid(m, "externalDocs")
                  THEN [p2 EXCEPT !.ch = ("externalDocs" :> FillAttrs(p2.ch["externalDocs"], m.ch["externalDocs"], {"description", "url"})) @@ @]
                  ELSE p2
      \* 3. lists
      p4  == SetSeqAttr(SetSeqAttr(SetSeqAttr(p3, "consumes", AppendNew(SeqAttr(p3, "consumes"), SeqAttr(m, "consumes"))),
                                    "produces", AppendNew(SeqAttr(p3, "produces"), SeqAttr(m, "produces"))),
                        "schemes", AppendNew(SeqAttr(p3, "schemes"), SeqAttr(m, "schemes")))
      p5  == SetList(p4, "tags", AppendTags(KidList(p4, "tags"), KidList(m, "tags")))
      p6  == SetList(p5, "security", AppendNew(KidList(p5, "security"), KidList(m, "security")))
      \* 4. keyed sections (primary wins); paths with id renaming
      p7  == SetSection(SetSection(p6, "securityDefinitions", ChildMap(p6, "securityDefinitions") @@ ChildMap(m, "securityDefinitions")),
                        "definitions", ChildMap(p6, "definitions") @@ ChildMap(m, "definitions"))
      newPaths == DOMAIN ChildMap(m, "paths") \ DOMAIN ChildMap(p, "paths")
      mp  == MergePathSet(ChildMap(p7, "paths"), ChildMap(m, "paths"), newPaths, st.ids, i)
      p8  == SetSection(p7, "paths", mp[1])
      p9  == SetSection(SetSection(p8, "parameters", ChildMap(p8, "parameters") @@ ChildMap(m, "parameters")),
                        "responses", ChildMap(p8, "responses") @@ ChildMap(m, "responses"))
      coll == ExtCollisions(p, m, xa)
              + (IF HasKid(p, "info") /\ HasKid(m, "info") THEN InfoCollisions(p.ch["info"], m.ch["info"], xa) ELSE 0)
              + SkippedTags(KidList(p, "tags"), KidList(m, "tags"))
              + SkippedReqs(KidList(p, "security"), KidList(m, "security"))
              + Cardinality(DOMAIN ChildMap(p, "securityDefinitions") \cap DOMAIN ChildMap(m, "securityDefinitions"))
              + Cardinality(DOMAIN ChildMap(p, "definitions") \cap DOMAIN ChildMap(m, "definitions"))
              + Cardinality(DOMAIN ChildMap(p, "paths") \cap DOMAIN ChildMap(m, "paths"))
              + Cardinality(DOMAIN ChildMap(p, "parameters") \cap DOMAIN ChildMap(m, "parameters"))
              + Cardinality(DOMAIN ChildMap(p, "responses") \cap DOMAIN ChildMap(m, "responses"))
  IN [doc |-> p9, skipped |-> st.skipped + coll, ids |-> mp[2]]

MixInit(primary) == [doc |-> primary, skipped |-> 0, ids |-> AllIds(primary)]
RECURSIVE MixFrom(_, _, _, _)
MixFrom(st, ms, i, xa) == IF ms = <<>> THEN st ELSE MixFrom(MixStep(st, Head(ms), i, xa), Tail(ms), i + 1, xa)
MixAll(docs, xa) == MixFrom(MixInit(Head(docs)), Tail(docs), 0, xa)

\* ---- comparison modulo the serialization normal form: empty sections == absent sections -------------
DropEmpty(doc) == [doc EXCEPT !.ch = [c \in { k \in DOMAIN doc.ch : ~(DOMAIN doc.ch[k].ch = {} /\ DOMAIN doc.ch[k].at \subseteq {"__list"}) } |-> doc.ch[c]]]
SameDoc(a, b)  == DropEmpty(a) = DropEmpty(b)

\* ---- the declarative statement of C17 / C18 over a whole history docs = <<primary, m1, ..., mn>> ----
First(docs, s, k) == CHOOSE i \in DOMAIN docs : k \in DOMAIN ChildMap(docs[i], s) /\ \A j \in 1..(i - 1) : k \notin DOMAIN ChildMap(docs[j], s)
RECURSIVE StripIds(_)
StripIds(n) == [at |-> Without(n.at, {"operationId"}), ch |-> [c \in DOMAIN n.ch |-> StripIds(n.ch[c])]]

FirstWins(docs, res) ==
  \A s \in KeyedSections :
    /\ DOMAIN ChildMap(res, s) = UNION { DOMAIN ChildMap(docs[i], s) : i \in DOMAIN docs }
    /\ \A k \in DOMAIN ChildMap(res, s) : StripIds(ChildMap(res, s)[k]) = StripIds(ChildMap(docs[First(docs, s, k)], s)[k])
RECURSIVE ConcatAttr(_, _, _)
ConcatAttr(docs, a, acc) == IF docs = <<>> THEN acc ELSE ConcatAttr(Tail(docs), a, AppendNew(acc, SeqAttr(Head(docs), a)))
ListUnion(docs, res) == \A a \in ListAttrs : SeqAttr(res, a) = ConcatAttr(docs, a, <<>>)
ScalarFill(docs, res) ==
  \A a \in {"host", "basePath"} :
    IF \E i \in DOMAIN docs : a \in DOMAIN docs[i].at
    THEN res.at[a] = docs[CHOOSE i \in DOMAIN docs : a \in DOMAIN docs[i].at /\ \A j \in 1..(i - 1) : a \notin DOMAIN docs[j].at].at[a]
    ELSE a \notin DOMAIN res.at
PrimaryKept(docs, res) ==
  LET p == Head(docs) IN
  /\ \A a \in DOMAIN p.at : a \in DOMAIN res.at /\ (a \notin ListAttrs => res.at[a] = p.at[a])
  /\ \A a \in ListAttrs : \A i \in DOMAIN SeqAttr(p, a) : SeqAttr(res, a)[i] = SeqAttr(p, a)[i]
  /\ \A s \in KeyedSections : \A k \in DOMAIN ChildMap(p, s) : ChildMap(res, s)[k] = ChildMap(p, s)[k]
\* one collision per key met again, section by section (keyed sections only; tags/security/extensions are in the operational count)
KeyCollisions(docs) ==
  LET RECURSIVE Cnt(_, _, _)
      Cnt(i, seen, s) == IF i > Len(docs) THEN 0
                         ELSE Cardinality(DOMAIN ChildMap(docs[i], s) \cap seen) + Cnt(i + 1, seen \cup DOMAIN ChildMap(docs[i], s), s)
      RECURSIVE Sum(_)
      Sum(S) == IF S = {} THEN 0 ELSE LET s == CHOOSE x \in S : TRUE IN Cnt(1, {}, s) + Sum(S \ {s})
  IN Sum(KeyedSections)

\* C18: under the precondition, non-empty ids pairwise distinct; changed only on collision; id-less stay id-less
IdsUniqueIn(doc) == LET B == IdBag(doc) IN \A x, y \in DOMAIN B : (x # y /\ B[x] # "") => B[x] # B[y]
IdsOK(docs, res) ==
  /\ IdsUniqueIn(res)
  /\ \A pm \in DOMAIN IdBag(res) :
       LET s  == First(docs, "paths", pm[1])
           o  == IdOf(ChildMap(docs[s], "paths")[pm[1]].ch[pm[2]])
           n  == IdBag(res)[pm]
       IN /\ (o = "" => n = "")
          \* changed only if it collides: the original id is (still) borne by another operation of the result
          /\ (n # o => /\ s > 1 /\ n = Renamed(o, s - 2)
                       /\ \E pm2 \in DOMAIN IdBag(res) \ {pm} : IdBag(res)[pm2] = o)
=============================================================================
