------------------------------ MODULE Swagger ------------------------------
(***************************************************************************)
(* The typing grammar of Swagger-2 positions as go-openapi/spec models     *)
(* them: which path of a document is a schema, a parameter, a response,    *)
(* a header, a simple-schema items object, a path item, an operation.      *)
(* This is the specification of WHERE a $ref, a pattern, an enum or a      *)
(* schema can be; the analyzer's recursive walk is checked against it.     *)
(*                                                                         *)
(* xk is the set of labels of the document that start with "x-" (vendor    *)
(* extensions); TLC strings are atomic, so this trivial relation is        *)
(* supplied with each case by the harness.                                 *)
(*                                                                         *)
(* lenient = TRUE also types the "schema" member of a non-body parameter   *)
(* as a schema (the statement of the properties leaves that case open:     *)
(* Swagger 2 forbids it, and the code treats it differently per site).     *)
(***************************************************************************)
EXTENDS Tree

Methods == {"get", "put", "post", "delete", "options", "head", "patch"}
METHODS == {"GET", "PUT", "POST", "DELETE", "OPTIONS", "HEAD", "PATCH"}
Upper(m) == CASE m = "get" -> "GET" [] m = "put" -> "PUT" [] m = "post" -> "POST"
              [] m = "delete" -> "DELETE" [] m = "options" -> "OPTIONS"
              [] m = "head" -> "HEAD" [] m = "patch" -> "PATCH"
Lower(m) == CASE m = "GET" -> "get" [] m = "PUT" -> "put" [] m = "POST" -> "post"
              [] m = "DELETE" -> "delete" [] m = "OPTIONS" -> "options"
              [] m = "HEAD" -> "head" [] m = "PATCH" -> "patch"

SchemaMapKeys  == {"properties", "definitions", "patternProperties"}
SchemaListKeys == {"allOf", "anyOf", "oneOf"}
SchemaKeys     == {"not", "additionalProperties", "additionalItems"}

IsBodyParam(n) == HasAttr(n, "in") /\ n.at["in"] = "body"

\* type of the child labelled l (node c) of a node n of type t
ChildType(t, n, l, c, xk, lenient) ==
  CASE t = "swagger" ->
         (CASE l = "definitions" -> "schemaMap"
            [] l = "parameters"  -> "paramMap"
            [] l = "responses"   -> "respMap"
            [] l = "paths"       -> "paths"
            [] OTHER             -> "opaque")
    [] t = "schemaMap"  -> "schema"
    [] t = "schemaList" -> "schema"
    [] t = "schema" ->
         (CASE l \in SchemaMapKeys  -> "schemaMap"
            [] l \in SchemaListKeys -> "schemaList"
            [] l \in SchemaKeys     -> "schema"
            [] l = "items"          -> IF IsList(c) THEN "schemaList" ELSE "schema"
            [] OTHER                -> "opaque")
    [] t = "paramMap"  -> "param"
    [] t = "paramList" -> "param"
    [] t = "param" ->
         (CASE l = "schema" -> IF lenient \/ IsBodyParam(n) THEN "schema" ELSE "opaque"
            [] l = "items"  -> "items"
            [] OTHER        -> "opaque")
    [] t = "items" -> IF l = "items" THEN "items" ELSE "opaque"
    [] t = "respMap" -> "response"
    [] t = "response" ->
         (CASE l = "schema"  -> "schema"
            [] l = "headers" -> "headerMap"
            [] OTHER         -> "opaque")
    [] t = "headerMap" -> "header"
    [] t = "header" -> IF l = "items" THEN "items" ELSE "opaque"
    [] t = "paths" -> IF l \in xk THEN "opaque" ELSE "pathItem"
    [] t = "pathItem" ->
         (CASE l \in Methods    -> "operation"
            [] l = "parameters" -> "paramList"
            [] OTHER            -> "opaque")
    [] t = "operation" ->
         (CASE l = "parameters" -> "paramList"
            [] l = "responses"  -> "responses"
            [] OTHER            -> "opaque")
    [] t = "responses" -> IF l \in xk THEN "opaque" ELSE "response"
    [] OTHER -> "opaque"

\* the set of <<path, type>> of all nodes below (and including) n
RECURSIVE Typed(_, _, _, _, _)
Typed(n, t, p, xk, lenient) ==
  {<<p, t>>} \cup
  UNION { Typed(n.ch[l], ChildType(t, n, l, n.ch[l], xk, lenient), Append(p, l), xk, lenient)
          : l \in DOMAIN n.ch }

TypedDoc(doc, xk, lenient) == Typed(doc, "swagger", <<>>, xk, lenient)
PosOf(TD, t) == { x[1] : x \in { y \in TD : y[2] = t } }
Positions(doc, t, xk) == PosOf(TypedDoc(doc, xk, FALSE), t)

\* type of one path (walks down from the root)
RECURSIVE TypeAt(_, _, _, _, _)
TypeAt(n, t, p, xk, lenient) ==
  IF p = <<>> THEN t
  ELSE IF Head(p) \notin DOMAIN n.ch THEN "none"
  ELSE TypeAt(n.ch[Head(p)], ChildType(t, n, Head(p), n.ch[Head(p)], xk, lenient), Tail(p), xk, lenient)
TypeOfPath(doc, p, xk) == TypeAt(doc, "swagger", p, xk, TRUE)

\* types whose nodes may legitimately hold a $ref
RefHolderTypes == {"schema", "param", "response", "pathItem", "items"}

TopLevelDef(p) == Len(p) = 2 /\ p[1] = "definitions"
DefNames(doc)  == IF "definitions" \in DOMAIN doc.ch THEN DOMAIN doc.ch["definitions"].ch ELSE {}
=============================================================================
