---------------------------- MODULE FlattenProps ----------------------------
(***************************************************************************)
(* C01 - C10 as predicates over (initial bundle, rewritten document,       *)
(* options, outcome, logged observations).  They are evaluated by TLC on   *)
(* states recorded from the real Flatten (Trace_Flatten) and are the       *)
(* invariants of the pipeline model.                                       *)
(***************************************************************************)
EXTENDS RefSem

RootOf(b)      == b["root"]
After(b0, doc) == [d \in DOMAIN b0 |-> IF d = "root" THEN doc ELSE b0[d]]
Defs(doc)      == DefNames(doc)
DefPos(n)      == <<"root", "definitions", n>>
Sections       == {"definitions", "parameters", "responses"}
KidsOf(doc)    == DOMAIN doc.ch

SectionEmpty(doc, s) == s \notin DOMAIN doc.ch \/ DOMAIN doc.ch[s].ch = {}

\* every $ref of the rewritten root, typed
RootHolders(doc, xk) == Holders(doc, xk)
RefsIn(doc)          == AllRefsIn(doc, <<>>)
Targeted(doc)        == { x[2] : x \in RefsIn(doc) }

\* ---- C01 ------------------------------------------------------------------------------------
SameSection(b0, b1, s) ==
  LET d0 == RootOf(b0)  d1 == RootOf(b1) IN
  IF s \in DOMAIN d0.ch /\ s \in DOMAIN d1.ch THEN SameMeaning(b0, <<"root", s>>, b1, <<"root", s>>)
  ELSE SectionEmpty(d0, s) /\ SectionEmpty(d1, s)

C01_Paths(b0, b1) ==
  \A s \in (KidsOf(RootOf(b0)) \cup KidsOf(RootOf(b1))) \ Sections : SameSection(b0, b1, s)
C01_Root(b0, b1)  == RootOf(b0).at = RootOf(b1).at
C01_Shared(b0, b1, ru) == ru \/ (SameSection(b0, b1, "parameters") /\ SameSection(b0, b1, "responses"))
C01_Defs(b0, b1, ru) ==
  \A n \in Defs(RootOf(b0)) :
    \/ n \in Defs(RootOf(b1)) /\ SameMeaning(b0, DefPos(n), b1, DefPos(n))
    \/ ru /\ n \notin Defs(RootOf(b1)) /\ DefPos(n) \notin Targeted(RootOf(b1))
MarkerPaths(doc) == { p \in Paths(doc) : HasAttr(At(doc, p), "x-go-gen-location") }
\* (a marker anywhere INSIDE a new definition is part of that addition: a named schema merged back into a new definition keeps its marker)
C01_Marker(b0, b1) ==
  \A p \in MarkerPaths(RootOf(b1)) :
    \/ Len(p) >= 2 /\ p[1] = "definitions" /\ p[2] \notin Defs(RootOf(b0))
    \/ Has(RootOf(b0), p) /\ HasAttr(At(RootOf(b0), p), "x-go-gen-location")
C01(b0, b1, ru) ==
  /\ C01_Paths(b0, b1) /\ C01_Root(b0, b1) /\ C01_Shared(b0, b1, ru) /\ C01_Defs(b0, b1, ru) /\ C01_Marker(b0, b1)

\* ---- C02 ------------------------------------------------------------------------------------
CanonicalRef(doc, r) == Len(r) = 3 /\ r[1] = "root" /\ r[2] = "definitions" /\ r[3] \in Defs(doc)
C02_Kinds(doc, xk) == \A h \in RootHolders(doc, xk) : h[2] = "schema"
C02_Form(doc)      == \A x \in RefsIn(doc) : CanonicalRef(doc, x[2])
C02(doc, xk)       == C02_Kinds(doc, xk) /\ C02_Form(doc)

\* ---- L1: contracts of the phases (snapshots recorded after every phase / loop round through the verif hooks) ----------
\* C01 is an inductive invariant of the pipeline: the operations mean the same after EVERY phase, not only at the end
PhaseOrder == <<"phase.expand", "phase.normalize", "phase.dropShared", "phase.import", "phase.nameInline", "phase.strip", "phase.removeUnused">>
\* (a snapshot equal to the previous one needs no new evaluation)
ChangedAt(phases, i) == i = 1 \/ phases[i].doc # phases[i - 1].doc
BrokenPhases(b0, phases)      == { i \in DOMAIN phases : ChangedAt(phases, i) /\ ~C01_Paths(b0, After(b0, phases[i].doc)) }
PhasesKeepMeaning(b0, phases) == BrokenPhases(b0, phases) = {}
\* lemmas of C02: what each phase must have achieved
NoSharedRefs(doc, xk) == \A h \in RootHolders(doc, xk) : h[2] = "schema"
NoRemoteRefs(doc)     == \A x \in RefsIn(doc) : x[2][1] = "root"
PhaseLemma(ph, xk) ==
  CASE ph.ev \in {"phase.expand", "phase.normalize", "phase.dropShared"} -> NoSharedRefs(ph.doc, xk)
    [] ph.ev \in {"phase.import", "phase.nameInline"} -> NoSharedRefs(ph.doc, xk) /\ NoRemoteRefs(ph.doc)
    [] ph.ev \in {"phase.strip", "phase.removeUnused"} -> NoSharedRefs(ph.doc, xk) /\ C02_Form(ph.doc)
    [] OTHER -> TRUE
BrokenLemmas(phases, xk) == { i \in DOMAIN phases : (ChangedAt(phases, i) \/ phases[i].ev \in Range(PhaseOrder)) /\ ~PhaseLemma(phases[i], xk) }
LemmasHold(phases, xk) == BrokenLemmas(phases, xk) = {}
\* the phases come in the order of the pipeline and the last snapshot is the returned document
MainPhases(phases) == SelectSeq([i \in DOMAIN phases |-> phases[i].ev], LAMBDA e : e \in Range(PhaseOrder))
PipelineShape(phases, doc, ok) ==
  ok => /\ MainPhases(phases) = PhaseOrder
        /\ phases[Len(phases)].doc = doc

\* ---- C03 ------------------------------------------------------------------------------------
\* the documented rule: object with properties, allOf composition, tuple
Complex(n) ==
  \/ ("properties" \in DOMAIN n.ch /\ DOMAIN n.ch["properties"].ch # {})
  \/ ("allOf" \in DOMAIN n.ch /\ DOMAIN n.ch["allOf"].ch # {})
  \/ ("items" \in DOMAIN n.ch /\ IsList(n.ch["items"]))
WellTyped(n) ==
  \/ ~HasAttr(n, "type")
  \/ ("properties" \in DOMAIN n.ch /\ n.at["type"] = "object")
  \/ ("items" \in DOMAIN n.ch /\ IsList(n.ch["items"]) /\ n.at["type"] = "array")
  \/ ("allOf" \in DOMAIN n.ch /\ n.at["type"] = "object")
InlineComplex(doc, xk) ==
  { p \in Positions(doc, "schema", xk) : Len(p) > 2 /\ ~HasRef(At(doc, p)) /\ Complex(At(doc, p)) /\ WellTyped(At(doc, p)) }
C03_Complete(doc, xk) == InlineComplex(doc, xk) = {}
C03_Unique(b0, doc, fold) ==
  \A n \in Defs(doc) \ Defs(RootOf(b0)) : \A m \in Defs(doc) \ {n} : fold[n] # fold[m]
\* "each such schema has become a named definition referenced from where it was": what stands where a schema was must designate a definition
C03_Named(doc) == \A x \in RefsIn(doc) : x[2][1] = "root" /\ Len(x[2]) = 3 /\ x[2][2] = "definitions" => x[2][3] \in Defs(doc)
C03(b0, doc, xk, fold) == C03_Complete(doc, xk) /\ C03_Unique(b0, doc, fold) /\ C03_Named(doc)

\* ---- C05 ------------------------------------------------------------------------------------
C05_Targets(doc) == \A x \in RefsIn(doc) : CanonicalRef(doc, x[2])
C05_NoRef(b0, doc) == HasCycle(b0) \/ RefsIn(doc) = {}
C05(b0, doc) == C05_Targets(doc) /\ C05_NoRef(b0, doc)

\* ---- C06 ------------------------------------------------------------------------------------
C06_Shared(doc)   == SectionEmpty(doc, "parameters") /\ SectionEmpty(doc, "responses")
C06_AllUsed(doc)  == \A n \in Defs(doc) : DefPos(n) \in Targeted(doc)
C06_NoDangle(b1)  == \A x \in RefsIn(RootOf(b1)) : Valid(b1, x[2])
C06(b1) == C06_Shared(RootOf(b1)) /\ C06_AllUsed(RootOf(b1)) /\ C06_NoDangle(b1)
=============================================================================
