SPECIFICATION Spec
CONSTANT MaxLen = 3
CONSTANT Export = FALSE
INVARIANT InvFixed
INVARIANT InvOldL2
INVARIANT InvOldL3
INVARIANT InvOldL4
INVARIANT InvOldL5
INVARIANT InvOldL6
INVARIANT ExportName
CHECK_DEADLOCK FALSE
