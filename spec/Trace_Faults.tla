---------------------------- MODULE Trace_Faults ----------------------------
(* C09 on recorded runs: Flatten / New / Schema under crash attribution, and fault enumeration of document loads. *)
EXTENDS FaultsAccept, Naturals, Sequences, TLC, Json, FiniteSets

CONSTANT K
Trace == ndJsonDeserialize("trace.ndjson")
N == Len(Trace)
VARIABLE l

Out(v) == PrintT(ToString(v))
Verdict(rec) ==
  /\ Out(<<"VERDICT", rec.tid, "C09", Accepts(rec)>>)
  /\ (rec.crash = "none" \/ Out(<<"DIAG", rec.tid, "C09", rec.crash \o "." \o rec.what, <<rec.kind>> >>))
  /\ ((rec.crash # "none" \/ ~((rec.loadFailed \/ rec.unresolvable) /\ ~rec.cont /\ rec.ok))
        \/ Out(<<"DIAG", rec.tid, "C09", "silent-success." \o rec.what, <<rec.kind>> >>))

TInit == l \in 1..K /\ l <= N /\ Verdict(Trace[l])
TNext == l + K <= N /\ l' = l + K /\ Verdict(Trace[l'])
TSpec == TInit /\ [][TNext]_l
=============================================================================
