SPECIFICATION Spec
CONSTANT MaxLoads = 4
CONSTANT MaxRounds = 2
INVARIANT FailSafe
PROPERTY Terminates
CHECK_DEADLOCK FALSE
