------------------------------ MODULE MC_Paths ------------------------------
(***************************************************************************)
(* Every (base, ref) pair over a small alphabet of directory names, "."    *)
(* and "..": the laws of Paths.tla hold, and each pair is exported with    *)
(* its rendering as strings, to be run through the real RebaseRef / Path.  *)
(***************************************************************************)
EXTENDS Paths, Json, FiniteSets
CONSTANTS MaxRel, Export

Names == {"a", "b"}
SegAlphabet == Names \cup {".", ".."}
RECURSIVE SeqsUpTo(_, _)
SeqsUpTo(S, n) == IF n = 0 THEN {<<>>} ELSE SeqsUpTo(S, n - 1) \cup { Append(s, x) : s \in SeqsUpTo(S, n - 1), x \in S }
Frags == {"", "/definitions/x", "/definitions/a#b"}

Bases == { [kind |-> "file", segs |-> <<"root">> \o d \o <<"r.json">>, frag |-> f] : d \in SeqsUpTo(Names, 2), f \in {"", "/definitions/y"} }
         \cup { [kind |-> k, segs |-> <<>>, frag |-> (IF k = "frag" THEN "/definitions/y" ELSE "")] : k \in {"empty", "dot", "frag"} }
Refs  == { [kind |-> "frag", segs |-> <<>>, frag |-> f] : f \in Frags \ {""} }
         \cup { [kind |-> "rel", segs |-> Append(d, "x.json"), frag |-> f] : d \in SeqsUpTo(SegAlphabet, MaxRel), f \in Frags }
         \cup { [kind |-> "abs", segs |-> <<"root", "b", "x.json">>, frag |-> f] : f \in Frags }

RECURSIVE JoinSlash(_)
JoinSlash(s) == IF s = <<>> THEN "" ELSE IF Len(s) = 1 THEN s[1] ELSE s[1] \o "/" \o JoinSlash(Tail(s))
WithFrag(p, f) == IF f = "" THEN p ELSE p \o "#" \o f
RenderBase(b) == CASE b.kind = "file" -> WithFrag("/" \o JoinSlash(b.segs), b.frag)
                   [] b.kind = "empty" -> "" [] b.kind = "dot" -> "." [] OTHER -> "#" \o b.frag
RenderRef(r)  == CASE r.kind = "frag" -> "#" \o r.frag
                   [] r.kind = "rel"  -> WithFrag(JoinSlash(r.segs), r.frag)
                   [] OTHER           -> WithFrag("/" \o JoinSlash(r.segs), r.frag)

VARIABLES base, ref
Init == base \in Bases /\ ref \in Refs
Next == UNCHANGED <<base, ref>>
Spec == Init /\ [][Next]_<<base, ref>>

InvLocate == LawLocate(base, ref)
InvIdem   == \A b2 \in { b \in Bases : b.kind = "file" /\ b.frag = "" } : LawIdem(base, b2, ref)
InvDotDot == LawDotDot(base, ref)
ExportCase == Export => PrintT(ToJson([base |-> base, ref |-> ref, baseStr |-> RenderBase(base), refStr |-> RenderRef(ref)]))
=============================================================================
