SPECIFICATION Spec
CONSTANT Export = TRUE
INVARIANT AllResolve
INVARIANT NoBackRef
INVARIANT CycleAsExpected
INVARIANT HoldersTyped
INVARIANT ExportBundle
CHECK_DEADLOCK FALSE
