----------------------------- MODULE MC_Classify ----------------------------
(***************************************************************************)
(* Every schema of the grammar (leaf kinds wrapped in containers up to     *)
(* MaxDepth) inside a root document that provides the $ref targets,        *)
(* including self-containing arrays / maps and mutual recursion.           *)
(* Invariants on the SPECIFIED classification: coherence of the flags,     *)
(* $ref transparency, agreement with the documented complexity rule.       *)
(* Every document is exported and classified by the real Schema().         *)
(***************************************************************************)
EXTENDS Classify, Json

CONSTANTS MaxDepth, Export
KF == {"date", "date-time", "uuid", "email"}

Str  == Mk([type |-> "string"], <<>>)
Int  == Mk([type |-> "integer"], <<>>)
RefD(n) == Mk(("$ref" :> <<"root", "definitions", n>>), <<>>)
ObjP(ps) == Mk([type |-> "object"], [properties |-> Mk(<<>>, ps)])

TargetDefs == [ T_1 |-> Str,
             T_2 |-> ObjP([N_1 |-> Int]),
             T_3 |-> Mk([type |-> "array"], [items |-> RefD("T_3")]),
             T_4 |-> Mk([type |-> "object"], [additionalProperties |-> RefD("T_4")]),
             T_5 |-> Mk([type |-> "array"], [items |-> RefD("T_6")]),
             T_6 |-> Mk([type |-> "object"], [additionalProperties |-> RefD("T_5")]),
             T_7 |-> RefD("T_2"),
             T_8 |-> Mk([type |-> "string", enum |-> <<"a", "b">>], <<>>),
             T_9 |-> Mk([type |-> "array"], [items |-> ListOf(<<Int, Str>>)]),
             T_10 |-> Mk([type |-> "object", discriminator |-> "kind"], [properties |-> Mk(<<>>, [kind |-> Str])]),
             T_11 |-> Mk([type |-> "array"], [items |-> Mk([type |-> "array"], [items |-> RefD("T_11")])]),
             \* a container OF a self-containing container (itself not on the cycle), as array and as map
             T_12 |-> Mk([type |-> "array"], [items |-> RefD("T_3")]),
             T_13 |-> Mk([type |-> "object"], [additionalProperties |-> RefD("T_5")]) ]

Leaves == { <<"leaf", k>> : k \in {"string", "integer", "date", "int32", "enum", "empty", "emptyobject", "object", "discriminated", "untypedprops", "barearray", "binary", "untypedformat"} }
          \cup { <<"ref", t>> : t \in DOMAIN TargetDefs }
LeafSchema(kk) ==
  IF kk[1] = "ref" THEN RefD(kk[2]) ELSE
  LET k == kk[2] IN
  CASE k = "string"  -> Str
    [] k = "integer" -> Int
    [] k = "date"    -> Mk([type |-> "string", format |-> "date"], <<>>)
    [] k = "int32"   -> Mk([type |-> "integer", format |-> "int32"], <<>>)
    [] k = "enum"    -> Mk([type |-> "string", enum |-> <<"x">>], <<>>)
    [] k = "empty"   -> Empty
    [] k = "emptyobject" -> Mk([type |-> "object"], <<>>)
    [] k = "object"  -> ObjP([N_2 |-> Str])
    [] k = "discriminated" -> Mk([type |-> "object", discriminator |-> "kind"], [properties |-> Mk(<<>>, [kind |-> Str])])
    [] k = "untypedprops"  -> Mk(<<>>, [properties |-> Mk(<<>>, [N_2 |-> Str])])
    [] k = "barearray" -> Mk([type |-> "array"], <<>>)
    [] k = "binary"    -> Mk([type |-> "string", format |-> "binary"], <<>>)      \* a primitive whose format the registry does not know
    [] k = "untypedformat" -> Mk([format |-> "uuid"], <<>>)

Wrappers == {"array", "map", "maptrue", "tuple", "tupleextra", "tupleallows", "allof", "extended", "prop", "allofmap", "allofmaptrue"}
WrapC(w, s) ==
  CASE w = "array"  -> Mk([type |-> "array"], [items |-> s])
    [] w = "map"    -> Mk([type |-> "object"], [additionalProperties |-> s])
    [] w = "maptrue" -> Mk([type |-> "object", additionalProperties |-> "=true"], <<>>)
    [] w = "tuple"  -> Mk([type |-> "array"], [items |-> ListOf(<<s, Int>>)])
    [] w = "tupleextra" -> Mk([type |-> "array"], [items |-> ListOf(<<Int>>), additionalItems |-> s])
    [] w = "tupleallows" -> Mk([type |-> "array", additionalItems |-> "=true"], [items |-> ListOf(<<s>>)])
    [] w = "allof"  -> Mk(<<>>, [allOf |-> ListOf(<<s, ObjP([N_3 |-> Int])>>)])
    [] w = "extended" -> Mk([type |-> "object"], [properties |-> Mk(<<>>, [N_3 |-> Int]), additionalProperties |-> s])
    [] w = "prop"   -> ObjP([N_4 |-> s])
    \* allOf together with additionalProperties and no own properties: an extended object, not a map
    [] w = "allofmap" -> Mk(<<>>, [allOf |-> ListOf(<<s>>), additionalProperties |-> Str])
    [] w = "allofmaptrue" -> Mk([additionalProperties |-> "=true"], [allOf |-> ListOf(<<s, ObjP([N_3 |-> Int])>>)])

VARIABLES schema, depth, done
vars == <<schema, depth, done>>
Doc(s) == Mk([swagger |-> "2.0"], [definitions |-> Mk(<<>>, ("N_9" :> s) @@ TargetDefs), paths |-> Empty])

Init == \E k \in Leaves : schema = LeafSchema(k) /\ depth = 0 /\ done = FALSE
WrapStep(w) == ~done /\ depth < MaxDepth /\ schema' = WrapC(w, schema) /\ depth' = depth + 1 /\ done' = FALSE
Finish == ~done /\ done' = TRUE /\ UNCHANGED <<schema, depth>>
Next == (\E w \in Wrappers : WrapStep(w)) \/ Finish
Spec == Init /\ [][Next]_vars

B == ("root" :> Doc(schema))
P9 == <<"root", "definitions", "N_9">>
F == ClassifyAt(B, P9, KF)

InvCoherent == done => Coherent(F)
\* every target, too
InvTargetsCoherent == done => \A t \in DOMAIN TargetDefs : Coherent(ClassifyAt(B, <<"root", "definitions", t>>, KF))
\* a schema that is only a $ref classifies exactly like its target
InvRefTransparent ==
  done => \A t \in DOMAIN TargetDefs :
            LET viaRef == Classify(("root" :> Doc(RefD(t))), P9, {}, KF)
                direct == ClassifyAt(("root" :> Doc(RefD(t))), <<"root", "definitions", t>>, KF)
            IN \A k \in FlagNames : ((viaRef.cyc \/ direct.cyc) /\ k \in SimpleFlags) \/ viaRef[k] = direct[k]
InvDocumented == done => (WellTypedSchema(schema) => (IsComplexFlags(F) <=> DocumentedComplex(schema)))
ExportDoc == (done /\ Export) => PrintT(ToJson([depth |-> depth, doc |-> Doc(schema)]))
=============================================================================
