---------------------------- MODULE Trace_Paths -----------------------------
(***************************************************************************)
(* Answers of the real normalize.RebaseRef / normalize.Path (through the   *)
(* verif hook) on every enumerated (base, ref): the location each answer   *)
(* designates must be the one Paths.tla specifies.  The harness splits the *)
(* returned string into path segments and fragment (at the first '#').     *)
(* URL bases: the code applies path.Dir / path.Join on the URL path and    *)
(* returns the URL WITHOUT the fragment of the ref; not claimed.           *)
(***************************************************************************)
EXTENDS Paths, Json, Tree
CONSTANT K
Trace == ndJsonDeserialize("trace.ndjson")
N == Len(Trace)
VARIABLE l

Verdict(rec) ==
  LET want  == Rebase(rec.base, rec.ref)
      got   == rec.rebased
      okR   == SameLocation(got, want)
      \* Path is asked with the file bases only (the root's own location)
      wantP == KeyPath(rec.base.segs, rec.ref)
      okP   == rec.base.kind # "file" \/ SameLocation(rec.keyed, wantP)
  IN /\ Out(<<"VERDICT", rec.tid, "PATHS", okR /\ okP>>)
     /\ (okR \/ Out(<<"DIAG", rec.tid, "PATHS", "rebase", <<rec.baseStr, rec.refStr, rec.rebasedStr>> >>))
     /\ (okP \/ Out(<<"DIAG", rec.tid, "PATHS", "path", <<rec.baseStr, rec.refStr, rec.keyedStr>> >>))

Init == l \in 1..K /\ l <= N /\ Verdict(Trace[l])
Next == l + K <= N /\ l' = l + K /\ Verdict(Trace[l'])
Spec == Init /\ [][Next]_l
=============================================================================
