SPECIFICATION Spec
CONSTANT Export = TRUE
INVARIANT Idempotent
INVARIANT Complete
INVARIANT OnlyDescs
INVARIANT KeepsGiven
INVARIANT RefsUntouched
INVARIANT ExportDoc
CHECK_DEADLOCK FALSE
