------------------------------ MODULE Analyzer ------------------------------
(***************************************************************************)
(* The analyzer's indexes as a FUNCTION OF THE DOCUMENT: sets over typed   *)
(* positions (Swagger.tla), not a transcription of the code's call graph.  *)
(* C11 (reference index), C12 (schema index), C13 (pattern / enum index).  *)
(*                                                                         *)
(* "strict" positions type a parameter's schema only for in=body;         *)
(* "lenient" ones always.  An answer A is accepted when                    *)
(*       Expected(strict) <= A <= Expected(lenient)                        *)
(* so documents outside what the statement fixes can never raise an alarm. *)
(***************************************************************************)
EXTENDS RefSem

\* ---- expected indexes ---------------------------------------------------
RefKindOf(t, p) ==
  CASE t = "schema"   -> "schema"
    [] t = "param"    -> "param"
    [] t = "response" -> "response"
    [] t = "pathItem" -> "pathItem"
    [] t = "items"    -> "items"
    [] OTHER          -> "none"

\* holders by kind, from a typed document TD: set of <<path, ref>>
HoldersOfKind(doc, TD, k) ==
  { <<x[1], RefOf(At(doc, x[1]))>> : x \in { y \in TD : y[2] = k /\ HasRef(At(doc, y[1])) } }

RefKinds == {"schema", "param", "response", "pathItem", "items"}
AllHolders(doc, TD) == UNION { HoldersOfKind(doc, TD, k) : k \in RefKinds }

BagOfHolders(H) == [v \in { h[2] : h \in H } |-> Cardinality({ h \in H : h[2] = v })]

BagLeq(A, B) == \A x \in DOMAIN A : x \in DOMAIN B /\ A[x] <= B[x]

HasPattern(n) == HasAttr(n, "pattern")
HasEnum(n)    == HasAttr(n, "enum") /\ n.at["enum"] # <<>>

PatternsOf(doc, TD, t) ==
  { <<x[1], At(doc, x[1]).at["pattern"]>> : x \in { y \in TD : y[2] = t /\ HasPattern(At(doc, y[1])) } }
EnumsOf(doc, TD, t) ==
  { <<x[1], At(doc, x[1]).at["enum"]>> : x \in { y \in TD : y[2] = t /\ HasEnum(At(doc, y[1])) } }

\* a parameter that is a $ref has no own pattern/enum: nothing special, the attribute is simply absent.

SchemaPos(TD)      == PosOf(TD, "schema")
AllOfPos(doc, TD)  == { p \in SchemaPos(TD) : "allOf" \in DOMAIN At(doc, p).ch /\ DOMAIN At(doc, p).ch["allOf"].ch # {} }

\* ---- verdicts on one recorded answer set --------------------------------
\* ans.refs.<kind>   : sequence of parsed refs (a bag)
\* ans.uniq          : sequence of parsed refs (AllRefs)
\* ans.patterns.<c>  : sequence of <<path, value>>      c in parameter, header, items, schema, all
\* ans.enums.<c>     : idem with sequences of values
\* ans.schemas       : sequence of [p, name, top, ok]
\* ans.allofs        : sequence of paths

Between(lo, x, hi) == lo \subseteq x /\ x \subseteq hi

C11Kind(doc, TDs, TDl, k, seq) ==
  LET B == BagOfSeq(seq) IN
  /\ BagLeq(BagOfHolders(HoldersOfKind(doc, TDs, k)), B)
  /\ BagLeq(B, BagOfHolders(HoldersOfKind(doc, TDl, k)))

C11(doc, TDs, TDl, ans) ==
  /\ C11Kind(doc, TDs, TDl, "schema",   ans.refs.schema)
  /\ C11Kind(doc, TDs, TDl, "param",    ans.refs.param)
  /\ C11Kind(doc, TDs, TDl, "response", ans.refs.response)
  /\ C11Kind(doc, TDs, TDl, "pathItem", ans.refs.pathItem)
  /\ C11Kind(doc, TDs, TDl, "items",    ans.refs.items)
  /\ LET B == BagOfSeq(ans.refs.all) IN
       /\ BagLeq(BagOfHolders(AllHolders(doc, TDs)), B)
       /\ BagLeq(B, BagOfHolders(AllHolders(doc, TDl)))
  /\ ans.uniqNoDup        \* AllRefs has no two equal strings (compared as strings by the harness)
  /\ Range(ans.uniq) = Range(ans.refs.all)

C12(doc, TDs, TDl, ans) ==
  LET ps == [i \in DOMAIN ans.schemas |-> ans.schemas[i].p] IN
  /\ NoDup(ps)
  /\ Between(SchemaPos(TDs), Range(ps), SchemaPos(TDl))
  /\ \A i \in DOMAIN ans.schemas :
       LET s == ans.schemas[i] IN
       /\ s.ok
       /\ s.top = TopLevelDef(s.p)
       /\ s.name = Last(s.p)
  /\ NoDup(ans.allofs)
  /\ Between(AllOfPos(doc, TDs), Range(ans.allofs), AllOfPos(doc, TDl))

PairSet(seq) == { <<seq[i].p, seq[i].v>> : i \in DOMAIN seq }

C13Cat(exS, exL, seq) == NoDup([i \in DOMAIN seq |-> seq[i].p]) /\ Between(exS, PairSet(seq), exL)

ParamTypes == {"param"}
C13(doc, TDs, TDl, ans) ==
  /\ C13Cat(PatternsOf(doc, TDs, "param"),  PatternsOf(doc, TDl, "param"),  ans.patterns.parameter)
  /\ C13Cat(PatternsOf(doc, TDs, "header"), PatternsOf(doc, TDl, "header"), ans.patterns.header)
  /\ C13Cat(PatternsOf(doc, TDs, "items"),  PatternsOf(doc, TDl, "items"),  ans.patterns.items)
  /\ C13Cat(PatternsOf(doc, TDs, "schema"), PatternsOf(doc, TDl, "schema"), ans.patterns.schema)
  /\ PairSet(ans.patterns.all) = PairSet(ans.patterns.parameter) \cup PairSet(ans.patterns.header)
                                   \cup PairSet(ans.patterns.items) \cup PairSet(ans.patterns.schema)
  /\ C13Cat(EnumsOf(doc, TDs, "param"),  EnumsOf(doc, TDl, "param"),  ans.enums.parameter)
  /\ C13Cat(EnumsOf(doc, TDs, "header"), EnumsOf(doc, TDl, "header"), ans.enums.header)
  /\ C13Cat(EnumsOf(doc, TDs, "items"),  EnumsOf(doc, TDl, "items"),  ans.enums.items)
  /\ C13Cat(EnumsOf(doc, TDs, "schema"), EnumsOf(doc, TDl, "schema"), ans.enums.schema)
  /\ PairSet(ans.enums.all) = PairSet(ans.enums.parameter) \cup PairSet(ans.enums.header)
                                \cup PairSet(ans.enums.items) \cup PairSet(ans.enums.schema)

\* ---- diagnostics: one witness per failing clause (only printed when non-empty) ----
BagMissing(exp, got) == { x \in DOMAIN exp : x \notin DOMAIN got \/ got[x] < exp[x] }
DiagKind(tid, doc, TDs, TDl, k, seq) ==
  LET B == BagOfSeq(seq) IN
  /\ Diag(tid, "C11", "refs." \o k \o ".missing", BagMissing(BagOfHolders(HoldersOfKind(doc, TDs, k)), B))
  /\ Diag(tid, "C11", "refs." \o k \o ".extra", BagMissing(B, BagOfHolders(HoldersOfKind(doc, TDl, k))))
DiagC11(tid, doc, TDs, TDl, ans) ==
  /\ DiagKind(tid, doc, TDs, TDl, "schema", ans.refs.schema)
  /\ DiagKind(tid, doc, TDs, TDl, "param", ans.refs.param)
  /\ DiagKind(tid, doc, TDs, TDl, "response", ans.refs.response)
  /\ DiagKind(tid, doc, TDs, TDl, "pathItem", ans.refs.pathItem)
  /\ DiagKind(tid, doc, TDs, TDl, "items", ans.refs.items)
  /\ Diag(tid, "C11", "refs.all.missing", BagMissing(BagOfHolders(AllHolders(doc, TDs)), BagOfSeq(ans.refs.all)))
  /\ Diag(tid, "C11", "refs.all.extra", BagMissing(BagOfSeq(ans.refs.all), BagOfHolders(AllHolders(doc, TDl))))
  /\ Diag(tid, "C11", "uniq", (Range(ans.uniq) \ Range(ans.refs.all)) \cup (Range(ans.refs.all) \ Range(ans.uniq)))
DiagC12(tid, doc, TDs, TDl, ans) ==
  LET ps == { ans.schemas[i].p : i \in DOMAIN ans.schemas } IN
  /\ Diag(tid, "C12", "schemas.missing", SchemaPos(TDs) \ ps)
  /\ Diag(tid, "C12", "schemas.extra", ps \ SchemaPos(TDl))
  /\ Diag(tid, "C12", "schemas.dup", { ans.schemas[i].p : i \in { j \in DOMAIN ans.schemas : \E k \in DOMAIN ans.schemas : k # j /\ ans.schemas[k].p = ans.schemas[j].p } })
  /\ Diag(tid, "C12", "schemas.unresolved", { ans.schemas[i].p : i \in { j \in DOMAIN ans.schemas : ~ans.schemas[j].ok } })
  /\ Diag(tid, "C12", "schemas.toplevel", { ans.schemas[i].p : i \in { j \in DOMAIN ans.schemas : ans.schemas[j].top # TopLevelDef(ans.schemas[j].p) } })
  /\ Diag(tid, "C12", "schemas.name", { ans.schemas[i].p : i \in { j \in DOMAIN ans.schemas : ans.schemas[j].name # Last(ans.schemas[j].p) } })
  /\ Diag(tid, "C12", "allofs.missing", AllOfPos(doc, TDs) \ Range(ans.allofs))
  /\ Diag(tid, "C12", "allofs.extra", Range(ans.allofs) \ AllOfPos(doc, TDl))
DiagCat(tid, what, exS, exL, seq) ==
  /\ Diag(tid, "C13", what \o ".missing", exS \ PairSet(seq))
  /\ Diag(tid, "C13", what \o ".extra", PairSet(seq) \ exL)
DiagC13(tid, doc, TDs, TDl, ans) ==
  /\ DiagCat(tid, "patterns.parameter", PatternsOf(doc, TDs, "param"),  PatternsOf(doc, TDl, "param"),  ans.patterns.parameter)
  /\ DiagCat(tid, "patterns.header", PatternsOf(doc, TDs, "header"), PatternsOf(doc, TDl, "header"), ans.patterns.header)
  /\ DiagCat(tid, "patterns.items", PatternsOf(doc, TDs, "items"),  PatternsOf(doc, TDl, "items"),  ans.patterns.items)
  /\ DiagCat(tid, "patterns.schema", PatternsOf(doc, TDs, "schema"), PatternsOf(doc, TDl, "schema"), ans.patterns.schema)
  /\ DiagCat(tid, "enums.parameter", EnumsOf(doc, TDs, "param"),  EnumsOf(doc, TDl, "param"),  ans.enums.parameter)
  /\ DiagCat(tid, "enums.header", EnumsOf(doc, TDs, "header"), EnumsOf(doc, TDl, "header"), ans.enums.header)
  /\ DiagCat(tid, "enums.items", EnumsOf(doc, TDs, "items"),  EnumsOf(doc, TDl, "items"),  ans.enums.items)
  /\ DiagCat(tid, "enums.schema", EnumsOf(doc, TDs, "schema"), EnumsOf(doc, TDl, "schema"), ans.enums.schema)
  /\ LET U == PairSet(ans.patterns.parameter) \cup PairSet(ans.patterns.header) \cup PairSet(ans.patterns.items) \cup PairSet(ans.patterns.schema)
     IN Diag(tid, "C13", "patterns.all", (U \ PairSet(ans.patterns.all)) \cup (PairSet(ans.patterns.all) \ U))
  /\ LET U == PairSet(ans.enums.parameter) \cup PairSet(ans.enums.header) \cup PairSet(ans.enums.items) \cup PairSet(ans.enums.schema)
     IN Diag(tid, "C13", "enums.all", (U \ PairSet(ans.enums.all)) \cup (PairSet(ans.enums.all) \ U))

\* sanity laws of the grammar itself (checked on every document TLC sees)
GrammarSane(doc, TDs, TDl) ==
  /\ TDs \subseteq TDl \/ \A x \in TDs : \E y \in TDl : y[1] = x[1]
  /\ \A x, y \in TDl : x[1] = y[1] => x[2] = y[2]           \* a path has one type
  /\ \A h \in AllHolders(doc, TDl) : h[2] # <<>>
=============================================================================
