---------------------------- MODULE Trace_Flatten ----------------------------
(***************************************************************************)
(* Property pass over runs recorded from the real Flatten: one record per  *)
(* (bundle, option set) with the initial bundle, the rewritten document,   *)
(* the outcome and the logged observations.  Every applicable property     *)
(* gets one verdict per record; nothing stops at the first failure.        *)
(***************************************************************************)
EXTENDS Dedup, Json

CONSTANT K
Trace == ndJsonDeserialize("trace.ndjson")
N == Len(Trace)
VARIABLE l

V(tid, p, ok) == Out(<<"VERDICT", tid, p, ok>>)

Verdict(rec) ==
  LET tid == rec.tid
      b0  == rec.bundle
      doc == rec.doc
      b1  == After(b0, doc)
      xk  == Range(rec.xkeys)
      ok  == rec.ok /\ rec.crash = "none"
      W   == rec.inW
      flat == rec.mode \in {"min", "full"}
  IN
  \* C04: Flatten returns nil AND the result satisfies C01 - C03 (each where it applies)
  /\ (W => LET r1 == ok => C01(b0, b1, rec.ru)
               r2 == (ok /\ flat) => C02(doc, xk)
               r3 == (ok /\ rec.mode = "full") => C03(b0, doc, xk, rec.fold)
           IN /\ V(tid, "C04", ok /\ r1 /\ r2 /\ r3)
              /\ ((ok /\ ~(r1 /\ r2 /\ r3)) =>
                    Out(<<"DIAG", tid, "C04", "result-" \o (IF ~r1 THEN "c01" ELSE IF ~r2 THEN "c02" ELSE "c03") \o "." \o rec.mode, <<>> >>)))
  /\ ((W /\ ~ok) => Out(<<"DIAG", tid, "C04", "error." \o rec.mode, <<rec.err>>>>))
  /\ ((W /\ ok) =>
        /\ V(tid, "C01", C01(b0, b1, rec.ru))
        \* L1 (phase contracts): reported as notes - they speak about the hook points, not about what Flatten returns
        /\ (rec.phases = <<>> \/ V(tid, "L1", PhasesKeepMeaning(b0, rec.phases) /\ PipelineShape(rec.phases, doc, TRUE) /\ LemmasHold(rec.phases, xk)))
        /\ (PhasesKeepMeaning(b0, rec.phases) \/ Out(<<"DIAG", tid, "L1", "meaning-after." \o rec.phases[CHOOSE i \in BrokenPhases(b0, rec.phases) : \A j \in BrokenPhases(b0, rec.phases) : i <= j].ev \o "." \o rec.mode, <<>> >>))
        /\ (rec.phases = <<>> \/ PipelineShape(rec.phases, doc, TRUE) \/ Out(<<"DIAG", tid, "L1", "pipeline-shape." \o rec.mode, <<>> >>))
        /\ (LemmasHold(rec.phases, xk) \/ Out(<<"DIAG", tid, "L1", "lemma-after." \o rec.phases[CHOOSE i \in BrokenLemmas(rec.phases, xk) : \A j \in BrokenLemmas(rec.phases, xk) : i <= j].ev \o "." \o rec.mode, <<>> >>))
        /\ (C01_Paths(b0, b1)          \/ LET s == CHOOSE s \in (KidsOf(RootOf(b0)) \cup KidsOf(RootOf(b1))) \ Sections : ~SameSection(b0, b1, s)
                                          IN Out(<<"DIAG", tid, "C01", "paths." \o rec.mode, WhyNot(b0, <<"root", s>>, b1, <<"root", s>>)>>))
        /\ (C01_Root(b0, b1)           \/ Out(<<"DIAG", tid, "C01", "rootattrs." \o rec.mode, <<>> >>))
        /\ (C01_Shared(b0, b1, rec.ru) \/ Out(<<"DIAG", tid, "C01", "shared." \o rec.mode, <<>> >>))
        /\ (C01_Defs(b0, b1, rec.ru)   \/ LET n == CHOOSE n \in Defs(RootOf(b0)) :
                                                      ~(\/ n \in Defs(RootOf(b1)) /\ SameMeaning(b0, DefPos(n), b1, DefPos(n))
                                                        \/ rec.ru /\ n \notin Defs(RootOf(b1)) /\ DefPos(n) \notin Targeted(RootOf(b1)))
                                          IN Out(<<"DIAG", tid, "C01", "defs." \o rec.mode,
                                                   IF n \in Defs(RootOf(b1)) THEN WhyNot(b0, DefPos(n), b1, DefPos(n)) ELSE <<"lost", n>> >>))
        /\ (C01_Marker(b0, b1)         \/ Out(<<"DIAG", tid, "C01", "marker." \o rec.mode, <<>> >>)))
  /\ ((W /\ ok /\ flat) =>
        /\ V(tid, "C02", C02(doc, xk))
        /\ Diag(tid, "C02", "kind." \o rec.mode, { <<h[1], h[2]>> : h \in { x \in RootHolders(doc, xk) : x[2] # "schema" } })
        /\ Diag(tid, "C02", "form." \o rec.mode, { x[2] : x \in { y \in RefsIn(doc) : ~CanonicalRef(doc, y[2]) } }))
  /\ ((W /\ ok /\ rec.mode = "full") =>
        /\ V(tid, "C03", C03(b0, doc, xk, rec.fold))
        /\ Diag(tid, "C03", "inline", InlineComplex(doc, xk))
        /\ (C03_Unique(b0, doc, rec.fold) \/ Out(<<"DIAG", tid, "C03", "unique", <<>> >>))
        /\ Diag(tid, "C03", "named-but-missing", { x[2] : x \in { y \in RefsIn(doc) : y[2][1] = "root" /\ Len(y[2]) = 3 /\ y[2][2] = "definitions" /\ y[2][3] \notin Defs(doc) } }))
  /\ ((W /\ ok /\ rec.mode = "expand") =>
        /\ V(tid, "C05", C05(b0, doc) /\ C01(b0, b1, rec.ru) /\ (rec.rerun => (HasCycle(b0) \/ rec.sameRerun)))
        /\ Diag(tid, "C05", "target", { x[2] : x \in { y \in RefsIn(doc) : ~CanonicalRef(doc, y[2]) } })
        /\ (C05_NoRef(b0, doc) \/ Out(<<"DIAG", tid, "C05", "acyclic-but-ref", <<>> >>)))
  /\ ((W /\ ok /\ rec.ru) =>
        /\ V(tid, "C06", C06(b1) /\ C01_Paths(b0, b1))
        /\ (C06_Shared(doc) \/ Out(<<"DIAG", tid, "C06", "shared." \o rec.mode, <<>> >>))
        /\ Diag(tid, "C06", "unused." \o rec.mode, { <<"definitions", m>> : m \in { n \in Defs(doc) : DefPos(n) \notin Targeted(doc) } })
        /\ Diag(tid, "C06", "dangling." \o rec.mode, { x[2] : x \in { y \in RefsIn(doc) : ~Valid(b1, y[2]) } }))
  /\ ((W /\ ok /\ flat /\ rec.second) =>
        /\ V(tid, "C08", rec.ok2 /\ rec.same2 /\ rec.doc2 = doc)
        /\ ((rec.ok2 /\ rec.same2) \/ Out(<<"DIAG", tid, "C08", IF rec.ok2 THEN "changed." \o rec.mode ELSE "error2." \o rec.mode, <<>> >>)))
  /\ V(tid, "C09", rec.crash = "none" /\ ((rec.loadFailed /\ ~rec.cont) => ~rec.ok))
  /\ ((rec.crash # "none") => Out(<<"DIAG", tid, "C09", rec.crash \o "." \o rec.mode, <<>> >>))
  /\ ((rec.crash = "none" /\ rec.loadFailed /\ ~rec.cont /\ rec.ok) => Out(<<"DIAG", tid, "C09", "silent-success." \o rec.mode, <<>> >>))
  /\ ((ok /\ rec.hasGetters) =>
        /\ V(tid, "C10", rec.getters = rec.fresh)
        /\ (rec.getters = rec.fresh \/ Out(<<"DIAG", tid, "C10", "stale." \o rec.mode \o (IF rec.ru THEN "+ru" ELSE ""), <<>> >>)))
  /\ Out(<<"STAT", tid, Cardinality(DOMAIN b0), Cardinality(Defs(RootOf(b0))), Cardinality(Defs(doc)),
           Cardinality(RefsIn(RootOf(b0))), Cardinality(RefsIn(doc))>>)

\* ---- step-level conformance (L2): each phase transition is explained by the operators of Flatten.tla with the
\* arguments the code logged.  A mismatch is MODEL DRIFT (reported, never a violation: the properties are judged above).
EventsAt(rec, i) == SelectSeq(rec.events, LAMBDA e : e.at = i - 1)
RECURSIVE ApplyEventsO(_, _, _, _)
ApplyEventsO(b0, doc, evs, orig) ==      \* orig: key -> schema first found there (see NameSchema)
  IF evs = <<>> THEN doc
  ELSE LET e == Head(evs) IN
       IF e.ev = "name"
       THEN LET k   == e.keys[1]
                \* aliasing in the code: a schema held in a slice (allOf/anyOf/oneOf member, tuple element) is addressed in place,
                \* so a second name for the same key clones what the first rewrite left there (a $ref); elsewhere the original
                slice == Len(k) >= 2 /\ Has(doc, Front(k)) /\ IsList(At(doc, Front(k)))
                sch == IF k \in DOMAIN orig /\ ~slice THEN orig[k] ELSE IF Has(doc, k) THEN At(doc, k) ELSE Empty
            IN ApplyEventsO(b0, NameWithDependants(doc, k, e.name, MarkerFor(k), sch), Tail(evs), (k :> sch) @@ orig)
       ELSE ApplyEventsO(b0,
              CASE e.ev = "import.new"   -> ImportNew(b0, doc, e.target, e.name, Range(e.keys))
                [] e.ev = "import.known" -> ImportKnown(doc, e.name, Range(e.keys))
                [] e.ev = "pointer.top"  -> PointerTop(doc, e.keys[1], e.target)
                [] e.ev = "pointer.expanded" -> PointerExpanded(doc, e.keys[1], e.target)
                [] e.ev = "strip.one"    -> StripOne(doc, Tail(e.target), e.parents)
                [] OTHER                 -> doc,          \* pointer.named: the preceding name event did the work
              Tail(evs), orig)
ApplyEvents(b0, doc, evs) == ApplyEventsO(b0, doc, evs, <<>>)
HasPointerEvents(rec) == \E i \in DOMAIN rec.events : rec.events[i].ev \in {"pointer.top", "pointer.named", "pointer.expanded", "strip.one"}
\* which transitions the constructive model speaks for
StepExpected(rec, b0, i) ==      \* the document the constructive model predicts after phase i ("skip" = not modelled)
  LET prev == IF i = 1 THEN RootOf(b0) ELSE rec.phases[i - 1].doc
      cur  == rec.phases[i]
      skip == cur.doc
  IN CASE cur.ev = "phase.expand"     -> IF rec.mode = "expand" THEN skip ELSE ExpandShared(b0)
       [] cur.ev = "phase.normalize"  -> prev
       [] cur.ev = "phase.dropShared" -> IF rec.ru THEN DropShared(prev) ELSE prev
       [] cur.ev = "round.import"     -> ApplyEvents(b0, prev, EventsAt(rec, i))
       [] cur.ev = "phase.import"     -> prev
       [] cur.ev = "phase.nameInline" -> ApplyEvents(b0, prev, EventsAt(rec, i))
       [] cur.ev \in {"round.namePointers", "round.stripOAIGen"} -> ApplyEvents(b0, prev, EventsAt(rec, i))
       [] cur.ev = "phase.strip" -> prev
       [] cur.ev = "round.removeUnused" -> RemovePass(prev)
       [] cur.ev = "phase.removeUnused" -> prev
       [] OTHER -> skip          \* pointer naming / OAIGen de-duplication: relational contracts only
StepExplained(rec, b0, i) == rec.phases[i].doc = StepExpected(rec, b0, i)
Drifting(rec, b0) == { i \in DOMAIN rec.phases : ~StepExplained(rec, b0, i) }
Steps(rec) ==
  (rec.ok /\ rec.crash = "none" /\ rec.inW /\ rec.phases # <<>>) =>
     LET D == Drifting(rec, rec.bundle) IN
     /\ Out(<<"VERDICT", rec.tid, "STEPS", D = {}>>)
     /\ (D = {} \/ LET i == CHOOSE i \in D : \A j \in D : i <= j IN
                      Out(<<"DIAG", rec.tid, "STEPS", rec.phases[i].ev \o "." \o rec.mode, TreeDiff(StepExpected(rec, rec.bundle, i), rec.phases[i].doc, <<>>)>>))

\* ---- conformance of the flatten CONTEXT (Dedup.tla): the context is rebuilt from the logged imports, and every logged
\* stripOAIGenForRef must be an enabled StripFor of the model, with the parents the model computes and an election the model allows;
\* the document the model reaches at the end of each strip round is the recorded one.  Model drift = NOTE, like STEPS.
RECURSIVE CtxRun(_, _, _, _)
\* st: model state; i: index of the next phase snapshot; returns <<ok, witness>>
CtxStripEvents(rec, st, evs) ==
  LET RECURSIVE go(_, _)
      go(s, es) ==
        IF es = <<>> THEN <<TRUE, s, "">>
        ELSE LET e == Head(es) IN
             IF e.ev # "strip.one" THEN go(s, Tail(es))
             ELSE LET k == e.keys[1] IN
                  IF ~Strippable(s, k) THEN <<FALSE, s, "not-enabled">>
                  ELSE IF Range(e.parents) # s.nr[k].par THEN <<FALSE, s, "parents">>
                  ELSE IF e.parents[1] \notin Topmost(s.nr[k].par) THEN <<FALSE, s, "election">>
                  ELSE go(StripFor(s, k, e.parents[1]), Tail(es))
  IN go(st, evs)
\* InlineSchemaNamer.Name tracks what it creates (generated names may collide too: then the entry is a deduplicated one)
RECURSIVE TrackNames(_, _)
TrackNames(s, es) ==
  IF es = <<>> THEN s
  ELSE LET e == Head(es) IN
       TrackNames(IF e.ev = "name"
                  THEN [s EXCEPT !.nr  = (e.keys[1] :> Ent(e.name, DefPath(e.name), e.oai, Carry(s.nr, e.keys[1]), Empty, {})) @@ @,
                                 !.gen = IF e.oai THEN @ \cup {e.name} ELSE @]
                  ELSE s, Tail(es))
CtxRun(rec, b0, st0, i) ==
  IF i > Len(rec.phases) THEN <<TRUE, "">>
  ELSE LET cur == rec.phases[i]  evs == EventsAt(rec, i)  st == TrackNames(st0, evs) IN
       CASE cur.ev = "round.import" ->
              LET RECURSIVE imp(_, _)
                  imp(s, es) == IF es = <<>> THEN s
                                ELSE LET e == Head(es) IN
                                     imp(IF e.ev = "import.new" THEN ImportLogged(b0, s, e.target, e.name, Range(e.keys), e.oai)
                                         ELSE IF e.ev = "import.known" THEN [s EXCEPT !.doc = ImportKnown(s.doc, e.name, Range(e.keys))]
                                         ELSE s, Tail(es))
                  s1 == EndRound(imp(st, evs))
              IN CtxRun(rec, b0, [s1 EXCEPT !.doc = cur.doc], i + 1)
         [] cur.ev = "round.stripOAIGen" ->
              \* the parents are collected on the document as it stands after pointer naming (the previous snapshot)
              LET s0 == UpdateParents([st EXCEPT !.doc = rec.phases[i - 1].doc, !.rwc = FALSE])
                  r  == CtxStripEvents(rec, s0, evs)
              IN IF ~r[1] THEN <<FALSE, "strip." \o r[3]>>
                 ELSE IF r[2].doc # cur.doc THEN <<FALSE, "strip.doc">>
                 ELSE CtxRun(rec, b0, [r[2] EXCEPT !.doc = cur.doc], i + 1)
         [] OTHER -> CtxRun(rec, b0, [st EXCEPT !.doc = cur.doc], i + 1)
Ctx(rec) ==
  (rec.ok /\ rec.crash = "none" /\ rec.inW /\ rec.phases # <<>> /\ rec.mode # "expand") =>
     LET r == CtxRun(rec, rec.bundle, St0(RootOf(rec.bundle)), 1) IN
     /\ Out(<<"VERDICT", rec.tid, "CTX", r[1]>>)
     /\ (r[1] \/ Out(<<"DIAG", rec.tid, "CTX", r[2] \o "." \o rec.mode, <<>> >>))

Init == l \in 1..K /\ l <= N /\ Verdict(Trace[l]) /\ Steps(Trace[l]) /\ Ctx(Trace[l])
Next == l + K <= N /\ l' = l + K /\ Verdict(Trace[l']) /\ Steps(Trace[l']) /\ Ctx(Trace[l'])
Spec == Init /\ [][Next]_l
=============================================================================
