---------------------------- MODULE MC_Analyzer ----------------------------
(***************************************************************************)
(* Exhaustive enumeration of the analyzer's decision table:                *)
(*   plant x carriers^depth x section     (schemas: C11, C12, C13)         *)
(*   plant x items-depth x owner/location (simple schemas: C13, C11 items) *)
(*   $ref on each non-schema holder kind  (C11)                            *)
(* In every enumerated document TLC checks that the position grammar       *)
(* (Swagger.tla) finds the plant where it was put - i.e. the specification *)
(* of the indexes is itself complete for every keyword and location - and  *)
(* exports the document for replay into the real analyzer.                 *)
(***************************************************************************)
EXTENDS Scenarios, Json

CONSTANTS MaxDepth, MaxItems, Export

VARIABLES phase, tree, depth, plant, sec, fam, xr      \* xr: $refs added by the carriers themselves

vars == <<phase, tree, depth, plant, sec, fam, xr>>

Init ==
  \/ /\ phase = "schema" /\ fam = "schema" /\ plant \in SchemaPlants /\ tree = PlantSchema(plant) /\ depth = 0 /\ sec = <<"-", "none">> /\ xr = 0
  \/ /\ phase = "simple" /\ fam = "simple" /\ plant \in SimplePlants \cup {"itemsref", "itemsrefall"} /\ tree = Empty /\ depth = 0 /\ sec = <<"-", "none">> /\ xr = 0
  \/ /\ phase = "holder" /\ fam = "holder" /\ plant = "ref" /\ tree = Empty /\ depth = 0 /\ sec = <<"-", "none">> /\ xr = 0

WrapStep(k) ==
  /\ phase = "schema" /\ depth < MaxDepth
  /\ tree' = Wrap(k, tree) /\ depth' = depth + 1 /\ xr' = IF k \in RefCarriers THEN xr + 1 ELSE xr
  /\ UNCHANGED <<phase, plant, sec, fam>>

PlaceSchemaStep(s) ==
  /\ phase = "schema"
  /\ phase' = "doc" /\ tree' = PlaceSchema(s, tree) /\ sec' = s
  /\ UNCHANGED <<depth, plant, fam, xr>>

PlaceSimpleStep(s, d) ==
  /\ phase = "simple"
  /\ plant \in {"itemsref", "itemsrefall"} => d > 0
  /\ phase' = "doc" /\ tree' = PlaceSimple(s, d, plant) /\ sec' = s /\ depth' = d
  /\ UNCHANGED <<plant, fam, xr>>

PlaceHolderStep(s) ==
  /\ phase = "holder"
  /\ phase' = "doc" /\ tree' = PlaceHolder(s) /\ sec' = s
  /\ UNCHANGED <<depth, plant, fam, xr>>

Next ==
  \/ \E k \in Carriers : WrapStep(k)
  \/ \E s \in SchemaSections : PlaceSchemaStep(s)
  \/ \E s \in SimpleSections, d \in 0..MaxItems : PlaceSimpleStep(s, d)
  \/ \E s \in HolderSections : PlaceHolderStep(s)

Spec == Init /\ [][Next]_vars

\* ---- what must hold of every enumerated document -----------------------------------------------
TD == TypedDoc(tree, {}, FALSE)

\* the plant is found by the index it belongs to, exactly once, and nowhere else
PlantFound ==
  phase = "doc" =>
    LET refsS == HoldersOfKind(tree, TD, "schema")
        pats  == UNION { PatternsOf(tree, TD, t) : t \in {"param", "header", "items", "schema"} }
        ens   == UNION { EnumsOf(tree, TD, t) : t \in {"param", "header", "items", "schema"} }
    IN
    CASE fam = "schema" /\ plant = "ref"     -> Cardinality(refsS) = 1 + xr /\ pats = {} /\ ens = {}
      [] fam = "schema" /\ plant = "pattern" -> Cardinality(PatternsOf(tree, TD, "schema")) = 1 /\ Cardinality(refsS) = xr /\ ens = {}
      [] fam = "schema" /\ plant = "enum"    -> Cardinality(EnumsOf(tree, TD, "schema")) = 1 /\ Cardinality(refsS) = xr /\ pats = {}
      [] plant = "itemsref" -> Cardinality(HoldersOfKind(tree, TD, "items")) = 1 /\ Cardinality(AllHolders(tree, TD)) = 1
      [] plant = "itemsrefall" -> Cardinality(HoldersOfKind(tree, TD, "items")) = depth /\ Cardinality(AllHolders(tree, TD)) = depth
      [] fam = "simple" /\ plant \in SimplePlants ->
           LET owner == IF depth > 0 THEN "items"
                        ELSE IF sec[2] \in {"sharedParam", "pathParam", "opParam", "sharedBodyParam", "pathBodyParam", "opBodyParam"}
                             THEN "param" ELSE "header"
           IN /\ (plant \in {"pattern", "both"}) = (Cardinality(PatternsOf(tree, TD, owner)) = 1)
              /\ (plant \in {"enum", "both"}) = (Cardinality(EnumsOf(tree, TD, owner)) = 1)
              /\ Cardinality(pats) + Cardinality(ens) = (IF plant = "both" THEN 2 ELSE 1)
      [] fam = "holder" ->
           CASE sec[2] = "pathParamRef" -> Cardinality(HoldersOfKind(tree, TD, "param")) = 1 /\ Cardinality(AllHolders(tree, TD)) = 1
             [] sec[2] = "opParamRef" -> Cardinality(HoldersOfKind(tree, TD, "param")) = 1 /\ Cardinality(AllHolders(tree, TD)) = 1
             [] sec[2] \in {"codeRespRef", "defaultRespRef"} -> Cardinality(HoldersOfKind(tree, TD, "response")) = 1 /\ Cardinality(AllHolders(tree, TD)) = 1
             [] sec[2] = "pathItemRef" -> /\ Cardinality(HoldersOfKind(tree, TD, "pathItem")) = 1
                                          /\ Cardinality(HoldersOfKind(tree, TD, "param")) = 1
                                          /\ Cardinality(HoldersOfKind(tree, TD, "response")) = 1
                                          /\ Cardinality(HoldersOfKind(tree, TD, "schema")) = 2
      [] OTHER -> FALSE

\* kinds partition the holders; every schema position is reachable through schema-typed ancestors only
KindsPartition ==
  phase = "doc" =>
    /\ \A k1, k2 \in RefKinds : k1 # k2 => HoldersOfKind(tree, TD, k1) \cap HoldersOfKind(tree, TD, k2) = {}
    /\ GrammarSane(tree, TD, TypedDoc(tree, {}, TRUE))
    /\ \A p \in SchemaPos(TD) : At(tree, p) = At(tree, p)

ExportDoc == (phase = "doc" /\ Export) => PrintT(ToJson([fam |-> fam, sec |-> sec, plant |-> plant, depth |-> depth, doc |-> tree]))
=============================================================================
