----------------------------- MODULE MC_Queries -----------------------------
(***************************************************************************)
(* Decision tables of the query layer (C14, C15), enumerated completely:   *)
(*  media    : operation consumes/produces {absent, one, two} x document   *)
(*             {absent, one}, under every method                           *)
(*  security : operation {absent, [], [{}], one, two alternatives} x       *)
(*             document {absent, one} x definitions {none, some, all}      *)
(*  ops      : two operations under every pair of methods on one or two    *)
(*             paths with ids {none, a, b, duplicate}                      *)
(*  params   : path-level and operation-level parameter lists built from   *)
(*             {inline, inline with the same (in,name), valid $ref,        *)
(*             dangling $ref, $ref to a non-parameter}; documents without  *)
(*             paths and paths without operation                           *)
(* Invariants state the precedence / override rules on the SPECIFICATION;  *)
(* every document is exported and queried on the real analyzer.            *)
(***************************************************************************)
EXTENDS Queries, Json
CONSTANTS Family, Export

Ok200 == Mk(<<>>, ("200" :> Mk([description |-> "ok"], <<>>)))
OpN(at, ch) == Mk(at, [responses |-> Ok200] @@ ch)
Base(at, ch) == Mk([swagger |-> "2.0"] @@ at, [info |-> Mk([title |-> "t", version |-> "1"], <<>>)] @@ ch)
PathsOf(f) == [paths |-> Mk(<<>>, f)]
Req(f) == Mk(f, <<>>)

\* (media types are opaque strings: parameters and repetitions are part of them)
MediaOpts == {<<>>, <<"application/json">>, <<"application/xml", "text/plain">>, <<"application/json; charset=utf-8", "application/json", "application/json">>}
SecOp == {"absent", "empty", "anon", "one", "two"}
SecAt(k) == CASE k = "absent" -> <<>> [] k = "empty" -> [security |-> <<>>] [] OTHER -> <<>>
SecCh(k) == CASE k = "anon" -> [security |-> ListOf(<<Req(<<>>)>>)]
              [] k = "one"  -> [security |-> ListOf(<<Req([k1 |-> <<>>])>>)]
              [] k = "two"  -> [security |-> ListOf(<<Req([k1 |-> <<"read">>]), Req([k2 |-> <<>>, k3 |-> <<"write", "read">>])>>)]
              [] OTHER -> <<>>
SecDef(n) == Mk(("in" :> "header") @@ [type |-> "apiKey", name |-> n], <<>>)

QParam(n, loc) == Mk(("in" :> loc) @@ [name |-> n, type |-> "string"], <<>>)
ParamKinds == {"inline", "same", "ref", "dangling", "notparam", "lookalike", "shadow"}
ParamOf(k, lvl) ==
  CASE k = "inline"   -> QParam(IF lvl = "path" THEN "limit" ELSE "offset", "query")
    [] k = "same"     -> QParam("id", "path")              \* the same (in, name) at both levels: the operation's must win
    [] k = "ref"      -> Mk(("$ref" :> <<"root", "parameters", "N_1">>), <<>>)
    \* an inline parameter with the (in, name) of the SHARED parameter N_1 (at operation level it must win over a path-level $ref to N_1)
    [] k = "shadow"   -> [QParam("filter", "query") EXCEPT !.at = [type |-> "integer"] @@ @]
    [] k = "dangling" -> Mk(("$ref" :> <<"root", "parameters", "doesNotExist">>), <<>>)
    [] k = "notparam" -> Mk(("$ref" :> <<"root", "definitions", "N_2">>), <<>>)
    \* resolves to something that is not a parameter although it has a name and a location (a security scheme)
    [] k = "lookalike" -> Mk(("$ref" :> <<"root", "securityDefinitions", "k1">>), <<>>)
ParamLists == {<<>>} \cup { <<a>> : a \in ParamKinds } \cup { <<a, b>> : a \in ParamKinds, b \in {"inline", "dangling", "ref"} }
PList(s, lvl) == IF s = <<>> THEN <<>> ELSE [parameters |-> ListOf([i \in DOMAIN s |-> IF s[i] = "same" /\ lvl = "op" THEN [ParamOf("same", lvl) EXCEPT !.at = [type |-> "integer"] @@ @] ELSE ParamOf(s[i], lvl)])]
SharedP == [parameters |-> Mk(<<>>, [N_1 |-> QParam("filter", "query")]), definitions |-> Mk(<<>>, [N_2 |-> Mk([type |-> "object"], <<>>)]),
            securityDefinitions |-> Mk(<<>>, [k1 |-> SecDef("X-1")])]

PRef(pr) == IF pr THEN ("$ref" :> <<"root", "x-shared", "items">>) ELSE <<>>
\* ... and the $ref resolves (to a path item kept under a root-level extension): Flatten will bring its operation in
XShared(pr) == IF pr THEN ("x-shared" :> Mk(<<>>, [items |-> Mk(<<>>, [options |-> OpN([operationId |-> "shared"], <<>>)])])) ELSE <<>>
Docs ==
  CASE Family = "media" ->
         { Base((IF dc = <<>> THEN <<>> ELSE [consumes |-> dc]) @@ (IF dp = <<>> THEN <<>> ELSE [produces |-> dp]),
                PathsOf([P_1 |-> Mk(<<>>, (m :> OpN((IF oc = <<>> THEN <<>> ELSE [consumes |-> oc]) @@ (IF op = <<>> THEN <<>> ELSE [produces |-> op]) @@ [operationId |-> "op1"], <<>>)))]))
           : m \in Methods, oc \in MediaOpts, op \in MediaOpts, dc \in {<<>>, <<"text/csv">>}, dp \in {<<>>, <<"text/csv">>} }
    [] Family = "security" ->
         { Base(<<>>, (IF ds THEN [security |-> ListOf(<<Req([k3 |-> <<>>])>>)] ELSE <<>>)
                      @@ (IF sd = "none" THEN <<>> ELSE [securityDefinitions |-> Mk(<<>>, IF sd = "some" THEN [k1 |-> SecDef("X-1")] ELSE [k1 |-> SecDef("X-1"), k2 |-> SecDef("X-2"), k3 |-> SecDef("X-3")])])
                      @@ PathsOf([P_1 |-> Mk(<<>>, (m :> OpN(SecAt(os) @@ [operationId |-> "op1"], SecCh(os))))]))
           : m \in Methods, os \in SecOp, ds \in BOOLEAN, sd \in {"none", "some", "all"} }
    [] Family = "ops" ->
         \* pr: the first path item ALSO carries a $ref (its own operations are operations of the document all the same)
         { Base(<<>>, XShared(pr) @@ PathsOf(IF same THEN ("P_1" :> Mk(PRef(pr), (m1 :> OpN(IF i1 = "" THEN <<>> ELSE [operationId |-> i1], <<>>)) @@ (m2 :> OpN(IF i2 = "" THEN <<>> ELSE [operationId |-> i2], <<>>))))
                                  ELSE ("P_1" :> Mk(PRef(pr), (m1 :> OpN(IF i1 = "" THEN <<>> ELSE [operationId |-> i1], <<>>)))) @@ ("P_2" :> Mk(<<>>, (m2 :> OpN(IF i2 = "" THEN <<>> ELSE [operationId |-> i2], <<>>))))))
           : m1 \in Methods, m2 \in Methods, i1 \in {"", "a"}, i2 \in {"", "a", "b", "a b"}, same \in BOOLEAN, pr \in BOOLEAN }
    [] Family = "params" ->
         { Base(<<>>, SharedP @@ PathsOf([P_1 |-> Mk(<<>>, PList(pl, "path") @@ (IF hasop THEN (m :> OpN([operationId |-> "op1"], PList(ol, "op"))) ELSE <<>>))]))
           : m \in {"get", "options", "patch"}, pl \in ParamLists, ol \in ParamLists, hasop \in BOOLEAN }
         \cup { Base(<<>>, SharedP) }

VARIABLES doc, picked
Init == doc = Empty /\ picked = FALSE
Next == ~picked /\ picked' = TRUE /\ doc' \in Docs
Spec == Init /\ [][Next]_<<doc, picked>>

GN == [n \in {"limit", "offset", "id", "filter"} |-> n]
OK == OpKeys(doc, {})
\* precedence: operation over document, empty vs absent
InvMedia == picked => \A k \in OK : LET op == OpNode(doc, {}, k[1], k[2]) IN
              /\ (AttrSeq(op, "consumes") # <<>> => MediaFor(doc, op, "consumes") = Range(AttrSeq(op, "consumes")))
              /\ (AttrSeq(op, "consumes") = <<>> => MediaFor(doc, op, "consumes") = Range(AttrSeq(doc, "consumes")))
              /\ MediaFor(doc, op, "produces") \subseteq RequiredMedia(doc, {}, "produces")
InvSecurity == picked => \A k \in OK : LET op == OpNode(doc, {}, k[1], k[2]) IN
              /\ (SecState(op) = "empty" => SecReqsFor(doc, op) = <<>> /\ ~SecIsNil(doc, op) /\ SecDefsFor(doc, op) = {})
              /\ (SecState(op) = "absent" => SecReqsFor(doc, op) = [i \in DOMAIN SecList(doc) |-> ReqOf(SecList(doc)[i])])
              /\ SecDefsFor(doc, op) \subseteq DOMAIN KidMap(doc, "securityDefinitions")
              /\ SchemeNames(doc, op) \subseteq RequiredSchemes(doc, {})
InvParams == picked => \A k \in (METHODS \X DOMAIN PathItems(doc, {})) :
              LET E == EffectiveParams(doc, {}, k[1], k[2], GN)  L == ParamList(doc, {}, k[1], k[2]) IN
              /\ \A x \in DOMAIN E : ~HasRef(E[x])                       \* never an unresolved placeholder
              /\ Cardinality(DOMAIN E) + Len(BadRefs(doc, {}, k[1], k[2])) <= Len(L)
              \* the operation's own parameter wins over the path-level one with the same (in, name)
              /\ (("path#id" \in DOMAIN E /\ <<k[1], k[2]>> \in OK /\ \E i \in DOMAIN KidSeq(OpNode(doc, {}, k[1], k[2]), "parameters") :
                      ParamName(KidSeq(OpNode(doc, {}, k[1], k[2]), "parameters")[i]) = "id") => AttrStr(E["path#id"], "type") = "integer")
ExportDoc == (picked /\ Export) => PrintT(ToJson([doc |-> doc]))
=============================================================================
