SPECIFICATION Spec
CONSTANT TKinds = {"aux1"}
CONSTANT HKinds = {"prop", "nested"}
CONSTANT H2Kinds = {"none", "code"}
CONSTANT CKinds = {"exact", "twoimports"}
CONSTANT Export = FALSE
INVARIANT InvNoError
INVARIANT InvBounded
INVARIANT InvC01
INVARIANT InvC02
INVARIANT InvC03
INVARIANT InvC05
INVARIANT InvC06
INVARIANT InvConfluent
CHECK_DEADLOCK FALSE
