SPECIFICATION Spec
CONSTANTS
  TKinds = {"aux1", "diamond", "recdep"}
  HKinds = {"prop", "alias", "code", "nested", "unusedalias", "opbody"}
  H2Kinds = {"none", "code", "prop2"}
  CKinds = {"exact", "case", "twoimports"}
  Export = FALSE
INVARIANTS InvNoError InvBounded InvC01 InvC01Ind InvC02 InvC03 InvC05 InvC06 InvConfluent
CHECK_DEADLOCK FALSE
