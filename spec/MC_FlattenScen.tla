--------------------------- MODULE MC_FlattenScen ---------------------------
(***************************************************************************)
(* Enumerates the scenario family S1 and checks, on every bundle, the      *)
(* facts the Flatten properties presuppose: membership in W (every $ref    *)
(* resolves, auxiliary documents never refer back to the root), and that   *)
(* the $ref-graph predicate HasCycle of RefSem.tla agrees with the kind of *)
(* target the bundle was built from.  Every bundle is exported for replay. *)
(***************************************************************************)
EXTENDS FlattenScen, Json

CONSTANT Export
VARIABLES phase, t, s, h, h2, c, bundle
vars == <<phase, t, s, h, h2, c, bundle>>

Init == /\ phase = "pick" /\ t = "-" /\ s = "-" /\ h = "-" /\ h2 = "-" /\ c = "-" /\ bundle = <<>>

Pick(tt, ss, hh, hh2, cc) ==
  /\ phase = "pick" /\ ValidCombo(tt, ss, hh, hh2, cc)
  /\ phase' = "done" /\ t' = tt /\ s' = ss /\ h' = hh /\ h2' = hh2 /\ c' = cc
  /\ bundle' = Assemble(tt, ss, hh, hh2, cc)

Next == \E tt \in TargetKinds, ss \in Shapes, hh \in HolderKinds, hh2 \in SecondKinds, cc \in Collisions : Pick(tt, ss, hh, hh2, cc)
Spec == Init /\ [][Next]_vars

AllResolve ==
  phase = "done" => \A x \in BundleRefs(bundle) : Res(bundle, x[2]) \notin Bad
NoBackRef ==
  phase = "done" => \A d \in DOMAIN bundle \ {"root"} : \A x \in AllRefsIn(bundle[d], <<>>) : x[2][1] # "root"
CycleAsExpected ==
  phase = "done" => (HasCycle(bundle) <=> Cyclic(t))
\* every planted holder is seen by the typed-position grammar as a schema holder (or param/response for shared objects)
HoldersTyped ==
  phase = "done" => \A x \in AllRefsIn(bundle["root"], <<>>) :
                       TypeOfPath(bundle["root"], x[1], {}) \in RefHolderTypes

ExportBundle ==
  (phase = "done" /\ Export) =>
     PrintT(ToJson([t |-> t, s |-> s, h |-> h, h2 |-> h2, c |-> c, docs |-> bundle]))
=============================================================================
