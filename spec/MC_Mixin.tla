------------------------------ MODULE MC_Mixin ------------------------------
(***************************************************************************)
(* Exhaustive exploration of mixin histories: a primary and 0..MaxMix      *)
(* mixins, each built from independent small choices per section           *)
(* (keys from a 2-element universe, optional parts present/absent,         *)
(* operation ids colliding under each HTTP method).  The state machine     *)
(* absorbs one mixin per step (MixStep); the invariants are the            *)
(* declarative statements of C17 / C18.  To keep the product small the     *)
(* sections are explored in independent FAMILIES (the merge rules of the   *)
(* sections do not interact, which TLC also checks on the mixed family).   *)
(***************************************************************************)
EXTENDS Mixin, Json

CONSTANTS MaxMix, Family, Export

XA == {"x-a", "x-b"}
Keys == {"N_1", "N_2"}
SubsetsOf(S) == SUBSET S

OwnerDef(o)  == Mk([type |-> "object", title |-> o], <<>>)
OwnerPar(o)  == Mk(("in" :> "query") @@ [name |-> o, type |-> "string"], <<>>)
OwnerResp(o) == Mk([description |-> o], <<>>)
OwnerSec(o)  == Mk(("in" :> "header") @@ [type |-> "apiKey", name |-> o], <<>>)
OpWith(id, o) == Mk((IF id = "" THEN <<>> ELSE [operationId |-> id]) @@ [summary |-> o], [responses |-> Mk(<<>>, ("200" :> Mk([description |-> "ok"], <<>>)))])

MapNode(f) == Mk(<<>>, f)
Section(name, f) == IF DOMAIN f = {} THEN <<>> ELSE (name :> MapNode(f))
Base == Mk([swagger |-> "2.0"], <<>>)

\* ---- families of documents ("o" is the owner tag d0, d1, ...) -----------------------------------
KeyedDocs(o) ==
  { [Base EXCEPT !.ch = Section("definitions", [k \in kd |-> OwnerDef(o)]) @@ Section("parameters", [k \in kp |-> OwnerPar(o)])
                        @@ Section("responses", [k \in kr |-> OwnerResp(o)]) @@ Section("securityDefinitions", [k \in ks |-> OwnerSec(o)])]
    : kd \in SubsetsOf(Keys), kp \in SubsetsOf({"N_1"}), kr \in SubsetsOf({"N_2"}), ks \in SubsetsOf({"N_1"}) }

ListDocs(o) ==
  { [Base EXCEPT !.at = (IF c = <<>> THEN <<>> ELSE [consumes |-> c]) @@ (IF s = <<>> THEN <<>> ELSE [schemes |-> s]) @@ @,
                 !.ch = (IF t = <<>> THEN <<>> ELSE [tags |-> ListOf([i \in DOMAIN t |-> Mk([name |-> t[i], description |-> o], <<>>)])])
                        @@ (IF q = <<>> THEN <<>> ELSE [security |-> ListOf(q)])]
    : c \in {<<>>, <<"a">>, <<"b", "a">>}, s \in {<<>>, <<"https", "http">>}, t \in {<<>>, <<"t1">>, <<"t2", "t1">>},
      q \in {<<>>, <<Mk([k1 |-> <<>>], <<>>)>>, <<Mk([k1 |-> <<"read">>], <<>>), Mk([k1 |-> <<>>], <<>>)>>} }

ContactOpt(o) == {<<>>, [contact |-> Mk([name |-> o], <<>>)], [contact |-> Mk([email |-> o] @@ ("x-a" :> o), <<>>)]}
ScalarDocs(o) ==
  { [Base EXCEPT !.at = h @@ x @@ @, !.ch = e]
    : h \in {<<>>, [host |-> o]}, x \in {<<>>, ("x-a" :> o), ("x-b" :> o)},
      e \in {<<>>, [externalDocs |-> Mk([url |-> o], <<>>)], [externalDocs |-> Mk([description |-> o], <<>>)]} }
InfoDocs(o) ==
  { [Base EXCEPT !.ch = i]
    : i \in {<<>>} \cup { [info |-> Mk(t @@ ix, c @@ li)] : t \in {<<>>, [title |-> o]}, ix \in {<<>>, ("x-a" :> o)}, c \in ContactOpt(o),
                                                          li \in {<<>>, [license |-> Mk([name |-> o], <<>>)]} } }

\* paths: one or two paths, an operation under method m1 with id from {"", "a", "b"}; a second path under m2
PathDocs(o, m1, m2) ==
  { [Base EXCEPT !.ch = Section("paths", pp)]
    : pp \in { <<>> } \cup { ("P_1" :> Mk(<<>>, (m1 :> OpWith(i1, o)))) : i1 \in {"", "a", "b"} }
             \cup { ("P_1" :> Mk(<<>>, (m1 :> OpWith(i1, o)))) @@ ("P_2" :> Mk(<<>>, (m2 :> OpWith(i2, o)))) : i1 \in {"", "a"}, i2 \in {"", "b"} }
             \cup { ("P_2" :> Mk(<<>>, (m2 :> OpWith(i2, o)) @@ (m1 :> OpWith(i1, o)))) : i1 \in {"a"}, i2 \in {"", "b"} } }

Owner(i) == "d" \o ToString(i)
DocsOf(i) ==
  CASE Family = "keyed"  -> KeyedDocs(Owner(i))
    [] Family = "lists"  -> ListDocs(Owner(i))
    [] Family = "scalar" -> ScalarDocs(Owner(i))
    [] Family = "info"   -> InfoDocs(Owner(i))
    [] Family \in Methods -> PathDocs(Owner(i), Family, IF Family = "get" THEN "options" ELSE "get")

VARIABLES docs, st, hist
vars == <<docs, st, hist>>

Init == /\ \E p \in DocsOf(0) : docs = <<p>> /\ st = MixInit(p) /\ hist = <<[doc |-> p, skipped |-> 0]>>
Absorb(m) ==
  /\ Len(docs) <= MaxMix
  /\ docs' = Append(docs, m)
  /\ st' = MixStep(st, m, Len(docs) - 1, XA)
  /\ hist' = Append(hist, [doc |-> st'.doc, skipped |-> st'.skipped])
Next == \E m \in DocsOf(Len(docs)) : Absorb(m)
Spec == Init /\ [][Next]_vars

\* ---- C17 / C18 on every reachable history ------------------------------------------------------------
InvFirstWins   == FirstWins(docs, st.doc)
InvLists       == ListUnion(docs, st.doc)
InvScalars     == ScalarFill(docs, st.doc)
InvPrimaryKept == PrimaryKept(docs, st.doc)
InvCollisions  == (Family = "keyed" \/ Family \in Methods) => st.skipped = KeyCollisions(docs)
InvIds         == IdsOK(docs, st.doc)
InvFoldIsAll   == st = MixAll(docs, XA)
\* absorbing is monotone: the collision count never decreases, the primary's own keys never change
Monotone       == [][st'.skipped >= st.skipped]_vars

ExportHist == Export => PrintT(ToJson([docs |-> docs]))
=============================================================================
