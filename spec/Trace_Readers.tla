---------------------------- MODULE Trace_Readers ---------------------------
(***************************************************************************)
(* Events recorded from G goroutines querying one shared analyzed Spec     *)
(* (race detector on): [g, n, q, a] = goroutine, per-goroutine sequence    *)
(* number, query, canonical answer.  Every event must be Query(g, q) of    *)
(* Readers.tla: the answer equals the sequential baseline answer of the    *)
(* unmodified document (scribbling on returned maps happens between        *)
(* events).  The document must serialize identically before and after.    *)
(***************************************************************************)
EXTENDS Naturals, Sequences, FiniteSets, TLC, Json
CONSTANT K
Trace == ndJsonDeserialize("trace.ndjson")
N == Len(Trace)
VARIABLE l
Out(v) == PrintT(ToString(v))

EventsOK(rec) ==
  \A i \in DOMAIN rec.events : LET e == rec.events[i] IN e.q \in DOMAIN rec.baseline /\ e.a = rec.baseline[e.q]
SeqOK(rec) ==
  \A g \in { rec.events[i].g : i \in DOMAIN rec.events } :
     LET ns == { rec.events[i].n : i \in { j \in DOMAIN rec.events : rec.events[j].g = g } } IN ns = 1..Cardinality(ns)
Verdict(rec) ==
  LET bad == { i \in DOMAIN rec.events : ~(rec.events[i].q \in DOMAIN rec.baseline /\ rec.events[i].a = rec.baseline[rec.events[i].q]) } IN
  /\ Out(<<"VERDICT", rec.tid, "C16", rec.race = "none" /\ rec.docUnchanged /\ rec.buildUnchanged /\ bad = {} /\ SeqOK(rec)>>)
  /\ (rec.race = "none" \/ Out(<<"DIAG", rec.tid, "C16", "race." \o rec.race, <<>> >>))
  /\ ((rec.docUnchanged /\ rec.buildUnchanged) \/ Out(<<"DIAG", rec.tid, "C16", "document-modified", <<>> >>))
  /\ (bad = {} \/ Out(<<"DIAG", rec.tid, "C16", "answer-differs", <<rec.events[CHOOSE i \in bad : TRUE].q>> >>))
  /\ Out(<<"STAT", rec.tid, Len(rec.events), Cardinality({ rec.events[i].g : i \in DOMAIN rec.events }), Cardinality(DOMAIN rec.baseline)>>)
Init == l \in 1..K /\ l <= N /\ Verdict(Trace[l])
Next == l + K <= N /\ l' = l + K /\ Verdict(Trace[l'])
Spec == Init /\ [][Next]_l
=============================================================================
