---------------------------- MODULE Trace_Mixin -----------------------------
(***************************************************************************)
(* Histories recorded from the real analysis.Mixin: for a primary and      *)
(* mixins m1..mn the harness runs Mixin(primary, m1..mj) for every prefix  *)
(* j = 0..n on fresh copies, i.e. it records the STATE AFTER EACH MIXIN,   *)
(* with the number of reported collisions and whether the call panicked.   *)
(* TLC replays the history through MixStep and compares every state.       *)
(***************************************************************************)
EXTENDS Mixin, Json

CONSTANT K
Trace == ndJsonDeserialize("trace.ndjson")
N == Len(Trace)
VARIABLE l

StepsOK(rec, j, xa) ==
  LET st == MixAll(SubSeq(rec.docs, 1, j), xa) IN
  /\ ~rec.panicked[j]
  /\ SameDoc(StripIds(rec.results[j]), StripIds(st.doc))
  /\ rec.skipped[j] = st.skipped
IdsStepOK(rec, j, xa) ==
  LET st == MixAll(SubSeq(rec.docs, 1, j), xa) IN
  /\ ~rec.panicked[j]
  /\ IdBag(rec.results[j]) = IdBag(st.doc)
  /\ IdsOK(SubSeq(rec.docs, 1, j), rec.results[j])

Verdict(rec) ==
  LET tid == rec.tid
      xa  == Range(rec.xa)
      J   == DOMAIN rec.docs
      bad17 == { j \in J : ~StepsOK(rec, j, xa) }
      bad18 == { j \in J : ~IdsStepOK(rec, j, xa) }
  IN
  /\ Out(<<"VERDICT", tid, "C17", bad17 = {}>>)
  /\ Out(<<"VERDICT", tid, "C18", bad18 = {}>>)
  /\ (bad17 = {} \/
        LET j  == CHOOSE x \in bad17 : \A y \in bad17 : x <= y
            st == MixAll(SubSeq(rec.docs, 1, j), xa)
        IN Out(<<"DIAG", tid, "C17",
                 IF rec.panicked[j] THEN "panic"
                 ELSE IF rec.skipped[j] # st.skipped THEN "collision-count"
                 ELSE "state",
                 <<"after", ToString(j - 1), "mixins">>,
                 IF rec.panicked[j] THEN <<>>
                 ELSE IF rec.skipped[j] # st.skipped THEN <<rec.skipped[j], st.skipped>>
                 ELSE { c \in DOMAIN DropEmpty(StripIds(rec.results[j])).ch \cup DOMAIN DropEmpty(StripIds(st.doc)).ch :
                          c \notin DOMAIN DropEmpty(StripIds(rec.results[j])).ch \/ c \notin DOMAIN DropEmpty(StripIds(st.doc)).ch
                          \/ DropEmpty(StripIds(rec.results[j])).ch[c] # DropEmpty(StripIds(st.doc)).ch[c] }
                      \cup { a \in DOMAIN rec.results[j].at \cup DOMAIN st.doc.at :
                          a \notin DOMAIN rec.results[j].at \/ a \notin DOMAIN st.doc.at \/ rec.results[j].at[a] # st.doc.at[a] } >>))
  /\ (bad18 = {} \/
        LET j  == CHOOSE x \in bad18 : \A y \in bad18 : x <= y
            st == MixAll(SubSeq(rec.docs, 1, j), xa)
        IN Out(<<"DIAG", tid, "C18", IF rec.panicked[j] THEN "panic" ELSE "ids", <<"after", ToString(j - 1), "mixins">>,
                 IF rec.panicked[j] THEN <<>> ELSE <<IdBag(rec.results[j]), IdBag(st.doc)>> >>))
  /\ Out(<<"STAT", tid, Len(rec.docs), rec.skipped[Len(rec.docs)], Cardinality(AllIds(rec.results[Len(rec.docs)]))>>)

Init == l \in 1..K /\ l <= N /\ Verdict(Trace[l])
Next == l + K <= N /\ l' = l + K /\ Verdict(Trace[l'])
Spec == Init /\ [][Next]_l
=============================================================================
