--------------------------- MODULE Trace_Analyzer ---------------------------
(***************************************************************************)
(* Validates answers recorded from the real analyzer (analysis.New and its *)
(* public getters) against Analyzer.tla.  One record per analysed document *)
(*   [tid, doc, xkeys, ans]                                                *)
(* K independent chains (l starts at 1..K and advances by K) let TLC's     *)
(* workers validate records in parallel.                                   *)
(***************************************************************************)
EXTENDS Analyzer, Json

CONSTANT K
Trace == ndJsonDeserialize("trace.ndjson")
N == Len(Trace)

VARIABLE l

Verdict(rec) ==
  LET doc == rec.doc
      tid == rec.tid
      xk  == Range(rec.xkeys)
      TDs == TypedDoc(doc, xk, FALSE)
      TDl == TypedDoc(doc, xk, TRUE)
      ans == rec.ans
  IN /\ Out(<<"VERDICT", tid, "C11", C11(doc, TDs, TDl, ans)>>)
     /\ Out(<<"VERDICT", tid, "C12", C12(doc, TDs, TDl, ans)>>)
     /\ Out(<<"VERDICT", tid, "C13", C13(doc, TDs, TDl, ans)>>)
     /\ Out(<<"VERDICT", tid, "SANE", GrammarSane(doc, TDs, TDl)>>)
     /\ Out(<<"STAT", tid, Cardinality(TDs), Cardinality(AllHolders(doc, TDs)), Cardinality(SchemaPos(TDs)),
              Cardinality(UNION { PatternsOf(doc, TDs, t) : t \in {"param", "header", "items", "schema"} }),
              Cardinality(UNION { EnumsOf(doc, TDs, t) : t \in {"param", "header", "items", "schema"} })>>)
     /\ DiagC11(tid, doc, TDs, TDl, ans) /\ DiagC12(tid, doc, TDs, TDl, ans) /\ DiagC13(tid, doc, TDs, TDl, ans)

Init == l \in 1..K /\ l <= N /\ Verdict(Trace[l])
Next == l + K <= N /\ l' = l + K /\ Verdict(Trace[l'])
Spec == Init /\ [][Next]_l
=============================================================================
