------------------------------ MODULE MC_Dedup ------------------------------
(***************************************************************************)
(* Exhaustive exploration of import collisions and their resolution        *)
(* (Dedup.tla) over the collision scenarios of the family, for every       *)
(* option set, EVERY order in which the flatten context may be ranged      *)
(* over, every order of the imports of one round and every tie among       *)
(* parents of equal depth.                                                 *)
(*   - the properties hold whatever the order (C01, C02, C03, C05, C06),   *)
(*   - no order makes the de-duplication fail (C04) or loop (the fuel of   *)
(*     the strip loop is never exhausted),                                 *)
(*   - the order does not matter: every run ends on the document of the    *)
(*     fixed-order composition FlattenDedupDet (C07).                      *)
(***************************************************************************)
EXTENDS Dedup, FlattenScen

CONSTANTS TKinds, HKinds, H2Kinds, CKinds, Export
Modes == {"min", "full", "expand"}

VARIABLES pc, b0, st, mode, ru, scen, todo, pend, rounds, flip
vars == <<pc, b0, st, mode, ru, scen, todo, pend, rounds, flip>>

Eligible(t, s, h, h2, c) ==
  /\ ValidCombo(t, s, h, h2, c) /\ s # "ptrarray"
  /\ t \in TKinds /\ h \in HKinds /\ h2 \in H2Kinds /\ c \in CKinds

Init == /\ pc = "pick" /\ b0 = <<>> /\ st = St0(Empty) /\ mode = "-" /\ ru = FALSE /\ scen = <<>> /\ todo = {} /\ pend = {} /\ rounds = 0 /\ flip = FALSE

Pick(t, s, h, h2, c, m, r, fl) ==
  /\ pc = "pick" /\ Eligible(t, s, h, h2, c)
  /\ (t \in AnonTargets => m # "expand")
  /\ (t \in SharedPtrTargets => m # "expand" /\ ~r)
  /\ b0' = Assemble(t, s, h, h2, c) /\ mode' = m /\ ru' = r /\ scen' = <<t, s, h, h2, c>>
  /\ st' = St0(Phase3(Phase1(b0', m), r))
  /\ todo' = RemoteTargets(st'.doc) /\ pend' = {} /\ rounds' = 0
  /\ pc' = "import" /\ flip' = fl

Keep == UNCHANGED <<b0, mode, ru, scen, flip>>
\* one remote target of the current round, in the order of the code's sort (open within one document)
ImportStep ==
  /\ pc = "import" /\ todo # {} /\ ~st.err
  /\ \E t \in NextImports(todo) : st' = ImportOne(b0, st, t) /\ todo' = todo \ {t}
  /\ UNCHANGED <<pc, pend, rounds>> /\ Keep
ImportRoundEnd ==
  /\ pc = "import" /\ todo = {} /\ ~st.err
  /\ st' = EndRound(st)
  /\ todo' = RemoteTargets(st'.doc)
  /\ pc' = IF todo' = {} THEN "name" ELSE "import"
  /\ UNCHANGED <<pend, rounds>> /\ Keep
NameStep ==
  /\ pc = "name" /\ st' = [st EXCEPT !.doc = Phase5(@, mode)] /\ pc' = "pointers"
  /\ UNCHANGED <<todo, pend, rounds>> /\ Keep
PointersStep ==
  /\ pc = "pointers"
  /\ LET s1 == UpdateParents([st EXCEPT !.doc = PointerLoop(@, 32), !.rwc = FALSE]) IN st' = s1 /\ pend' = DOMAIN s1.nr
  /\ pc' = "strip" /\ UNCHANGED <<todo, rounds>> /\ Keep
\* the range over the context: any pending key next; a key that does not qualify when its turn comes is skipped
StripStep ==
  /\ pc = "strip" /\ pend # {} /\ ~st.err
  /\ \E k \in pend :
       /\ pend' = pend \ {k}
       /\ IF Strippable(st, k) THEN st' = StripFor(st, k, Elect(st.nr[k].par, flip)) ELSE st' = st
  /\ UNCHANGED <<pc, todo, rounds>> /\ Keep
StripRoundEnd ==
  /\ pc = "strip" /\ pend = {} /\ ~st.err
  /\ IF st.rwc
     THEN /\ st' = [st EXCEPT !.doc = IF mode = "full" THEN NameLoop(@, 32) ELSE @]
          /\ pc' = "pointers" /\ rounds' = rounds + 1
     ELSE /\ st' = [st EXCEPT !.doc = Phase7(@, ru)] /\ pc' = "done" /\ rounds' = rounds
  /\ UNCHANGED <<todo, pend>> /\ Keep

Next ==
  \/ \E t \in TargetKinds, s \in Shapes, h \in HolderKinds, h2 \in SecondKinds, c \in Collisions, m \in Modes, r \in BOOLEAN, fl \in BOOLEAN : Pick(t, s, h, h2, c, m, r, fl)
  \/ ImportStep \/ ImportRoundEnd \/ NameStep \/ PointersStep \/ StripStep \/ StripRoundEnd
Spec == Init /\ [][Next]_vars

B1 == After(b0, st.doc)
Done == pc = "done"
InvNoError  == ~st.err                                     \* C04: no order makes a rewrite step miss its key
InvBounded  == rounds <= 4                                 \* the strip loop settles
InvC01      == Done => C01(b0, B1, ru)
InvC01Ind   == pc \notin {"pick"} => C01_Paths(b0, B1)
InvC02      == (Done /\ mode # "expand") => C02(st.doc, {})
InvC03      == (Done /\ mode = "full") => C03_Complete(st.doc, {})
InvC05      == (Done /\ mode = "expand") => C05(b0, st.doc)
InvC06      == (Done /\ ru) => C06(B1)
\* C07: whatever the order, the result is the one of the fixed-order composition
InvConfluent == Done => st.doc = FlattenDedupDet(b0, mode, ru, flip).doc
\* no deduplicated definition is left when it could be merged back (what stripOAIGen is for): every remaining generated name is
\* either still needed because its plain name is taken, or refers to itself
ExportDone == (Done /\ Export) => PrintT(ToString(<<"FINAL", scen, mode, ru, Defs(st.doc)>>))
=============================================================================
