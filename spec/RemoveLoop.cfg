SPECIFICATION Spec
CONSTANT Names = {a, b, c}
INVARIANT AllUsed
INVARIANT NoDangling
INVARIANT RootsKept
PROPERTY Shrinks
PROPERTY Terminates
CHECK_DEADLOCK FALSE
