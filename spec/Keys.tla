-------------------------------- MODULE Keys --------------------------------
(***************************************************************************)
(* Character-level model of how names travel through the two escaping      *)
(* layers of the analyzer / flattener (C06, C12, and the key handling      *)
(* behind C01-C04).  A name is a sequence of characters over               *)
(*      a  /  ~  0  1  space  #  ?  {                                      *)
(* (letter, the JSON-pointer specials and their escape digits, and URL     *)
(* specials; '%' is outside the alphabet of the properties).  A rendered   *)
(* string additionally contains the units %20 %23 %7B (one element each).  *)
(*                                                                         *)
(* Production:   Key(prefix, n)   = prefix / PtrEscape(n)   (analyzer.go)  *)
(*               Render(key)      = # UrlEscape(key)    (spec.Ref.String)  *)
(* Consumption:  UrlUnescape, Tokens (jsonpointer), Dir/Base, KeyParts,    *)
(*               fragment split of RebaseRef.                              *)
(* Each law exists in two versions: Fixed = TRUE is what the code does     *)
(* now; Fixed = FALSE is the formula of the pinned upstream tree, which    *)
(* TLC shows to fail exactly on the character classes where the checks     *)
(* found the defects.                                                      *)
(***************************************************************************)
EXTENDS Naturals, Sequences, FiniteSets, TLC

Alphabet == {"a", "/", "~", "0", "1", " ", "#", "?", "{"}

RECURSIVE Cat(_)
Cat(ss) == IF ss = <<>> THEN <<>> ELSE Head(ss) \o Cat(Tail(ss))
MapSeq(s, F(_)) == [i \in DOMAIN s |-> F(s[i])]

\* ---- JSON pointer escaping ------------------------------------------------------------------------
PtrEscChar(c) == CASE c = "~" -> <<"~", "0">> [] c = "/" -> <<"~", "1">> [] OTHER -> <<c>>
PtrEscape(n)  == Cat(MapSeq(n, PtrEscChar))
\* strings.ReplaceAll(strings.ReplaceAll(s, "~1", "/"), "~0", "~")
RECURSIVE Replace2(_, _, _, _)
Replace2(s, a, b, r) ==
  IF Len(s) < 2 THEN s
  ELSE IF s[1] = a /\ s[2] = b THEN <<r>> \o Replace2(SubSeq(s, 3, Len(s)), a, b, r)
  ELSE <<s[1]>> \o Replace2(Tail(s), a, b, r)
PtrUnescape(s) == Replace2(Replace2(s, "~", "1", "/"), "~", "0", "~")

\* ---- URL (fragment) escaping as net/url renders it -------------------------------------------------
UrlEscChar(c) == CASE c = " " -> "%20" [] c = "#" -> "%23" [] c = "{" -> "%7B" [] OTHER -> c
UrlEscape(s)   == MapSeq(s, UrlEscChar)
UrlUnescChar(c) == CASE c = "%20" -> " " [] c = "%23" -> "#" [] c = "%7B" -> "{" [] OTHER -> c
UrlUnescape(s) == MapSeq(s, UrlUnescChar)

\* ---- splitting -------------------------------------------------------------------------------------
RECURSIVE SplitOn(_, _, _)
SplitOn(s, sep, cur) ==            \* strings.Split
  IF s = <<>> THEN <<cur>>
  ELSE IF Head(s) = sep THEN <<cur>> \o SplitOn(Tail(s), sep, <<>>)
  ELSE SplitOn(Tail(s), sep, Append(cur, Head(s)))
Split(s, sep) == SplitOn(s, sep, <<>>)
LastOf(ss) == ss[Len(ss)]
\* path.Base / path.Dir of a pointer that starts with "/" and has no trailing slash
Base(p) == LastOf(Split(p, "/"))
\* jsonpointer: tokens of "/a/b" are the unescaped segments after the leading slash
Tokens(p) == MapSeq(Tail(Split(p, "/")), PtrUnescape)

Str(s) == s                          \* a Go string literal as a character sequence
Defs   == <<"/", "d">>               \* stands for "/definitions" (one letter is enough: prefixes are plain)
Props  == <<"/", "d", "/", "x", "/", "p">>   \* "/definitions/x/properties"

\* ---- production --------------------------------------------------------------------------------------
Key(prefix, n) == prefix \o <<"/">> \o PtrEscape(n)          \* slashpath.Join(prefix, jsonpointer.Escape(name))
Render(key)    == <<"#">> \o UrlEscape(key)                   \* spec.MustCreateRef("#"+key).String()
PrefixTokens(prefix) == Tokens(prefix)

\* ---- the laws ----------------------------------------------------------------------------------------
\* L1 (C12): the rendered ref of an indexed schema resolves to the tokens it was built from
L1(prefix, n) == Tokens(UrlUnescape(Tail(Render(Key(prefix, n))))) = PrefixTokens(prefix) \o <<n>>

\* L2 (replace.getParentFromKey): the map entry of the parent container is the name itself
L2(prefix, n, fixed) ==
  LET pth == UrlUnescape(Key(prefix, n)) IN
  (IF fixed THEN PtrUnescape(Base(pth)) ELSE Base(pth)) = n

\* L3 (removeUnusedSinglePass): a definition is recognised as used exactly by the $refs that target it
\*     old: the string "#/definitions/"+Escape(name) must equal the rendered ref, and the deleted key is path.Base of it
\*     new: decoded tokens are compared
L3used(n, fixed) ==
  LET rendered == Render(Key(Defs, n)) IN
  IF fixed THEN Tokens(UrlUnescape(Tail(rendered))) = <<<<"d">>, n>>
  ELSE (<<"#">> \o Key(Defs, n)) = rendered
L3deleted(n, fixed) ==          \* which key gets deleted for an unused definition n
  IF fixed THEN n ELSE Base(Key(Defs, n))
L3(n, fixed) == L3used(n, fixed) /\ L3deleted(n, fixed) = n

\* L4 (normalize.RebaseRef): the fragment of the (unescaped) $ref survives the split on '#'
L4(n, fixed) ==
  LET ref   == UrlUnescape(Render(Key(Defs, n)))          \* url.PathUnescape(ref)
      parts == Split(ref, "#")
      frag  == IF fixed THEN Cat([i \in 1..(Len(parts) - 1) |-> IF i = 1 THEN parts[i + 1] ELSE <<"#">> \o parts[i + 1]])   \* SplitN(ref, "#", 2)[1]
               ELSE parts[2]
  IN frag = Key(Defs, n)

\* L5 (sortref.KeyParts on a key built from a rendered ref): the parts are the names
L5(n, fixed) ==
  LET key == Tail(Render(Key(Props, n)))                   \* ref.String() used as key (flattenAnonPointer)
      k2  == IF fixed THEN UrlUnescape(key) ELSE key
      parts == MapSeq(SelectSeq(Split(k2, "/"), LAMBDA x : x # <<>>), PtrUnescape)
  IN LastOf(parts) = n

\* L6 (InlineSchemaNamer.Name): the $ref built for a generated definition name designates that definition
L6(n, fixed) ==
  LET raw == Defs \o <<"/">> \o (IF fixed THEN PtrEscape(n) ELSE n)      \* path.Join("#/definitions", name)
  IN Tokens(UrlUnescape(UrlEscape(raw))) = <<<<"d">>, n>>

AllLaws(n, fixed) == L1(Defs, n) /\ L1(Props, n) /\ L2(Defs, n, fixed) /\ L2(Props, n, fixed) /\ L3(n, fixed) /\ L4(n, fixed) /\ L5(n, fixed) /\ L6(n, fixed)

\* classes of names (which specials occur)
Has(n, c) == \E i \in DOMAIN n : n[i] = c
NeedsPtr(n) == Has(n, "/") \/ Has(n, "~")
NeedsUrl(n) == Has(n, " ") \/ Has(n, "#") \/ Has(n, "{")
=============================================================================
