---------------------------- MODULE Trace_Fixer -----------------------------
(* C19 on documents recorded before / after / after a second call of the real FixEmptyResponseDescriptions. *)
EXTENDS Fixer, Json
CONSTANT K
Trace == ndJsonDeserialize("trace.ndjson")
N == Len(Trace)
VARIABLE l
Verdict(rec) ==
  LET xk == Range(rec.xkeys) IN
  /\ Out(<<"VERDICT", rec.tid, "C19", C19(rec.before, rec.after, rec.after2, rec.panicked, xk)>>)
  /\ (~rec.panicked \/ Out(<<"DIAG", rec.tid, "C19", "panic", <<>> >>))
  /\ (rec.panicked \/ rec.after = Fix(rec.before, xk)
        \/ (IF \E p \in ToFix(rec.before, xk) : EmptyDesc(At(rec.after, p))
            THEN Diag(rec.tid, "C19", "missed", { p \in ToFix(rec.before, xk) : EmptyDesc(At(rec.after, p)) })
            ELSE Out(<<"DIAG", rec.tid, "C19", "changed-something-else", <<>> >>)))
  /\ (rec.panicked \/ rec.after2 = rec.after \/ Out(<<"DIAG", rec.tid, "C19", "not-idempotent", <<>> >>))
  /\ Out(<<"STAT", rec.tid, Cardinality(ToFix(rec.before, xk)), Cardinality(PosOf(TypedDoc(rec.before, xk, TRUE), "response"))>>)
Init == l \in 1..K /\ l <= N /\ Verdict(Trace[l])
Next == l + K <= N /\ l' = l + K /\ Verdict(Trace[l'])
Spec == Init /\ [][Next]_l
=============================================================================
