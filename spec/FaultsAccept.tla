---------------------------- MODULE FaultsAccept ----------------------------
(* The observable contract of C09 on one recorded call (shared by the pipeline model Faults.tla and Trace_Faults.tla). *)
\* what a recorded run must satisfy (trace validation)
Accepts(rec) ==
  /\ rec.crash = "none"
  /\ ((rec.loadFailed /\ ~rec.cont) => ~rec.ok)
  /\ ((rec.unresolvable /\ ~rec.cont) => ~rec.ok)
=============================================================================
