------------------------------ MODULE MC_Flatten -----------------------------
(***************************************************************************)
(* L2: exhaustive exploration of the flatten PIPELINE (Flatten.tla) over   *)
(* the scenario family restricted to bundles without name collisions       *)
(* (where OAIGen de-duplication is the identity), anonymous pointers and   *)
(* pointers into shared objects included, for every option set of W.  The state machine runs phase by phase; C01's         *)
(* operation-meaning clause is an invariant of EVERY state (inductive),    *)
(* the other properties are checked when the pipeline returns, and C08     *)
(* by running the pipeline again on its output.                            *)
(***************************************************************************)
EXTENDS Flatten, FlattenScen

CONSTANTS TKinds, HKinds, H2Kinds        \* subsets of the scenario dimensions (all of them in the thorough configuration)
Modes == {"min", "full", "expand"}

VARIABLES pc, b0, doc, mode, ru, scen
vars == <<pc, b0, doc, mode, ru, scen>>

Eligible(t, s, h, h2, c) ==
  /\ ValidCombo(t, s, h, h2, c) /\ c = "none" /\ s # "ptrarray"
  /\ t \in TKinds /\ h \in HKinds /\ h2 \in H2Kinds
  \* W: anonymous pointers under Minimal and full flattening only; pointers into shared objects only without RemoveUnused (see Pick)

Init == /\ pc = "pick" /\ b0 = <<>> /\ doc = Empty /\ mode = "-" /\ ru = FALSE /\ scen = <<>>

Pick(t, s, h, h2, m, r) ==
  /\ pc = "pick" /\ Eligible(t, s, h, h2, "none")
  /\ (t \in AnonTargets => m # "expand")
  /\ (t \in SharedPtrTargets => m # "expand" /\ ~r)
  /\ b0' = Assemble(t, s, h, h2, "none") /\ doc' = RootOf(b0') /\ mode' = m /\ ru' = r
  /\ scen' = <<t, s, h, h2>> /\ pc' = "expand"
Step(from, to, newdoc) == pc = from /\ pc' = to /\ doc' = newdoc /\ UNCHANGED <<b0, mode, ru, scen>>
Next ==
  \/ \E t \in TargetKinds, s \in Shapes, h \in HolderKinds, h2 \in SecondKinds, m \in Modes, r \in BOOLEAN : Pick(t, s, h, h2, m, r)
  \/ Step("expand", "drop", Phase1(b0, mode))
  \/ Step("drop", "import", Phase3(doc, ru))
  \/ Step("import", "name", Phase4(b0, doc))
  \/ Step("name", "strip", Phase5(doc, mode))
  \/ Step("strip", "remove", Phase6(doc, mode, 4))
  \/ Step("remove", "done", Phase7(doc, ru))
Spec == Init /\ [][Next]_vars

Running == pc \notin {"pick"}
B1 == After(b0, doc)
\* C01: the operations mean the same after every phase (inductive), everything at the end
InvC01Inductive == Running => C01_Paths(b0, B1)
InvC01 == pc = "done" => C01(b0, B1, ru)
InvC02 == (pc = "done" /\ mode # "expand") => C02(doc, {})
InvC03 == (pc = "done" /\ mode = "full") => C03_Complete(doc, {})
InvC05 == (pc = "done" /\ mode = "expand") => C05(b0, doc)
InvC06 == (pc = "done" /\ ru) => C06(B1)
\* C08: flattening the output again changes nothing
InvC08 == (pc = "done" /\ mode # "expand") => FlattenModel(("root" :> doc), mode, ru) = doc
\* the phase machine computes the pipeline function
InvIsPipeline == pc = "done" => doc = FlattenModel(b0, mode, ru)
\* phase lemmas (C02): what each phase must have achieved
InvLemmas ==
  /\ (pc \in {"drop", "import", "name", "strip", "remove", "done"} => NoSharedRefs(doc, {}))
  /\ (pc \in {"name", "strip", "remove", "done"} => NoRemoteRefs(doc))
  /\ (pc \in {"remove", "done"} /\ mode # "expand" => C02_Form(doc))
=============================================================================
