----------------------------- MODULE Trace_Det ------------------------------
(***************************************************************************)
(* C07: Flatten is deterministic.  One record per (bundle, option set):    *)
(* the SHA-256 of json.Marshal(document) and the outcome of R repeated     *)
(* runs (fresh map iteration orders) and of P runs on copies of the input  *)
(* files whose JSON members were written in a permuted order (different    *)
(* insertion history of the document's maps).  All must agree.             *)
(* Expand mode is claimed for bundles without reference cycle only.        *)
(***************************************************************************)
EXTENDS RefSem, Json
CONSTANT K
Trace == ndJsonDeserialize("trace.ndjson")
N == Len(Trace)
VARIABLE l

Applicable(rec) == rec.mode # "expand" \/ ~HasCycle(rec.bundle)
AllEqual(s) == \A i, j \in DOMAIN s : s[i] = s[j]
Verdict(rec) ==
  /\ (Applicable(rec) =>
        /\ Out(<<"VERDICT", rec.tid, "C07", AllEqual(rec.oks) /\ AllEqual(rec.hashes)>>)
        /\ (AllEqual(rec.oks) \/ Out(<<"DIAG", rec.tid, "C07", "outcome-differs." \o rec.mode, <<>> >>))
        /\ (~AllEqual(rec.oks) \/ AllEqual(rec.hashes) \/ Out(<<"DIAG", rec.tid, "C07", "bytes-differ." \o rec.mode, <<>> >>)))
  /\ Out(<<"STAT", rec.tid, Len(rec.hashes), Cardinality(Range(rec.hashes)), IF Applicable(rec) THEN 1 ELSE 0>>)
Init == l \in 1..K /\ l <= N /\ Verdict(Trace[l])
Next == l + K <= N /\ l' = l + K /\ Verdict(Trace[l'])
Spec == Init /\ [][Next]_l
=============================================================================
