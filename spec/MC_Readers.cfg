SPECIFICATION Spec
CONSTANT Readers = {r1, r2, r3}
CONSTANT Queries <- QS
CONSTANT Alias = FALSE
INVARIANT ReadOnly
CHECK_DEADLOCK FALSE
