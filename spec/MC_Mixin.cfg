SPECIFICATION Spec
CONSTANT MaxMix = 2
CONSTANT Family = "keyed"
CONSTANT Export = FALSE
INVARIANT InvFirstWins
INVARIANT InvLists
INVARIANT InvScalars
INVARIANT InvPrimaryKept
INVARIANT InvCollisions
INVARIANT InvIds
INVARIANT InvFoldIsAll
INVARIANT ExportHist
PROPERTY Monotone
CHECK_DEADLOCK FALSE
