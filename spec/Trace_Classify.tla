--------------------------- MODULE Trace_Classify ---------------------------
(* C20: flags recorded from the real analysis.Schema() for every schema position of a document, against Classify.tla. *)
EXTENDS Classify, Json
CONSTANT K
Trace == ndJsonDeserialize("trace.ndjson")
N == Len(Trace)
VARIABLE l

Verdict(rec) ==
  LET b   == ("root" :> rec.doc)
      kf  == Range(rec.knownFormats)
      E   == rec.entries
      pos(i) == <<"root">> \o E[i].p
      spec(i) == ClassifyAt(b, pos(i), kf)
      badAgree == { i \in DOMAIN E : ~E[i].failed /\ ~Agrees(E[i].flags, spec(i)) }
      badCoh   == { i \in DOMAIN E : ~E[i].failed /\ ~spec(i).cyc /\ ~Coherent(E[i].flags) }
      \* $ref transparency on the REAL answers: a schema that is only a $ref has the flags recorded for its target
      badRef   == { i \in DOMAIN E : ~E[i].failed /\ HasRef(NodeAt(b, pos(i))) /\
                      \E j \in DOMAIN E : ~E[j].failed /\ pos(j) = RefOf(NodeAt(b, pos(i))) /\
                         \E k \in FlagNames : ~((spec(i).cyc \/ spec(j).cyc) /\ k \in SimpleFlags) /\ E[i].flags[k] # E[j].flags[k] }
      badDoc   == { i \in DOMAIN E : ~E[i].failed /\ WellTypedSchema(NodeAt(b, pos(i))) /\
                      (~E[i].flags.IsSimpleSchema /\ ~E[i].flags.IsArray /\ ~E[i].flags.IsMap) # DocumentedComplex(NodeAt(b, pos(i))) }
      \* "classifies exactly like the schema it refers to" also when it comes to failing: a $ref-only schema is classified iff its target is;
      \* and when every $ref of the document resolves there is nothing Schema() could legitimately fail on
      allResolve == \A x \in BundleRefs(b) : Valid(b, x[2])
      badFailRef == IF ~allResolve THEN {} ELSE
                    { i \in DOMAIN E : HasRef(NodeAt(b, pos(i))) /\ \E j \in DOMAIN E : pos(j) = RefOf(NodeAt(b, pos(i))) /\ E[i].failed # E[j].failed }
      badFail  == IF allResolve THEN { i \in DOMAIN E : E[i].failed } ELSE {}
      crashed  == rec.crash # "none"
  IN
  /\ Out(<<"VERDICT", rec.tid, "C20", ~crashed /\ badAgree = {} /\ badCoh = {} /\ badRef = {} /\ badDoc = {} /\ badFailRef = {} /\ badFail = {}>>)
  /\ (~crashed \/ Out(<<"DIAG", rec.tid, "C20", "crash." \o rec.crash, <<>> >>))
  /\ (badAgree = {} \/ LET i == CHOOSE x \in badAgree : TRUE IN
                         Out(<<"DIAG", rec.tid, "C20", "flags", Differing(E[i].flags, spec(i)), E[i].p>>))
  /\ (badCoh = {} \/ Out(<<"DIAG", rec.tid, "C20", "incoherent", E[CHOOSE x \in badCoh : TRUE].p>>))
  /\ (badRef = {} \/ Out(<<"DIAG", rec.tid, "C20", "ref-not-transparent", E[CHOOSE x \in badRef : TRUE].p>>))
  /\ (badFailRef = {} \/ Out(<<"DIAG", rec.tid, "C20", "ref-fails-unlike-target", E[CHOOSE x \in badFailRef : TRUE].p>>))
  /\ (badFail = {} \/ Out(<<"DIAG", rec.tid, "C20", "fails-although-all-refs-resolve", E[CHOOSE x \in badFail : TRUE].p>>))
  /\ (badDoc = {} \/ Out(<<"DIAG", rec.tid, "C20", "documented-rule", E[CHOOSE x \in badDoc : TRUE].p>>))
  /\ Out(<<"STAT", rec.tid, Len(E), Cardinality({ i \in DOMAIN E : HasRef(NodeAt(b, pos(i))) }), Cardinality({ i \in DOMAIN E : spec(i).cyc })>>)

Init == l \in 1..K /\ l <= N /\ Verdict(Trace[l])
Next == l + K <= N /\ l' = l + K /\ Verdict(Trace[l'])
Spec == Init /\ [][Next]_l
=============================================================================
