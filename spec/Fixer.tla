------------------------------- MODULE Fixer --------------------------------
(***************************************************************************)
(* C19: FixEmptyResponseDescriptions.  Fix(doc) sets description to        *)
(* "(empty)" exactly at the response-typed positions (shared, default,     *)
(* status code; every method of every path) that are not $refs and have    *)
(* an empty description; everything else is equal; Fix is idempotent.      *)
(***************************************************************************)
EXTENDS Swagger

EmptyDesc(n)  == ~HasAttr(n, "description") \/ n.at["description"] = ""
ToFix(doc, xk) == { p \in PosOf(TypedDoc(doc, xk, TRUE), "response") : ~HasRef(At(doc, p)) /\ EmptyDesc(At(doc, p)) }

RECURSIVE FixAll(_, _)
FixAll(doc, ps) ==
  IF ps = {} THEN doc
  ELSE LET p == CHOOSE x \in ps : TRUE
       IN FixAll(SetAt(doc, p, SetAttr(At(doc, p), "description", "(empty)")), ps \ {p})
Fix(doc, xk) == FixAll(doc, ToFix(doc, xk))

\* the statement, clause by clause
AllDescribed(doc, xk) == \A p \in PosOf(TypedDoc(doc, xk, TRUE), "response") : HasRef(At(doc, p)) \/ ~EmptyDesc(At(doc, p))
C19(before, after, after2, panicked, xk) ==
  /\ ~panicked
  /\ after = Fix(before, xk)
  /\ after2 = after
=============================================================================
