SPECIFICATION Spec
CONSTANT K = 4
CHECK_DEADLOCK FALSE
