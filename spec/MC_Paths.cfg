SPECIFICATION Spec
CONSTANT MaxRel = 2
CONSTANT Export = TRUE
INVARIANT InvLocate
INVARIANT InvIdem
INVARIANT InvDotDot
INVARIANT ExportCase
CHECK_DEADLOCK FALSE
