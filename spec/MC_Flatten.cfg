SPECIFICATION Spec
CONSTANT TKinds = {"local", "aux1", "mutual", "anonprop", "anonitems", "anonallof", "sharedparam", "sharedresp"}
CONSTANT HKinds = {"prop", "tuple", "allof", "alias", "opbody", "code", "sharedparam", "sharedresp", "nested", "opnested", "auxresp", "auxpathitem", "unusedparam", "casesiblings"}
CONSTANT H2Kinds = {"none", "code", "prop2", "same"}
INVARIANT InvC01Inductive
INVARIANT InvC01
INVARIANT InvC02
INVARIANT InvC03
INVARIANT InvC05
INVARIANT InvC06
INVARIANT InvC08
INVARIANT InvIsPipeline
INVARIANT InvLemmas
CHECK_DEADLOCK FALSE
