SPECIFICATION Spec
CONSTANT MaxDepth = 2
CONSTANT Export = TRUE
INVARIANT InvCoherent
INVARIANT InvTargetsCoherent
INVARIANT InvRefTransparent
INVARIANT InvDocumented
INVARIANT ExportDoc
CHECK_DEADLOCK FALSE
