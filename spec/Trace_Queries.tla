---------------------------- MODULE Trace_Queries ---------------------------
(* C14 / C15: answers of the real query methods recorded per document, validated against Queries.tla. *)
EXTENDS Queries, Json
CONSTANT K
Trace == ndJsonDeserialize("trace.ndjson")
N == Len(Trace)
VARIABLE l

SeqSet(s) == Range(s)
IdsUnique(doc, xk) == [k \in OpKeys(doc, xk) |-> OpId(doc, xk, k)]

C14Clauses(rec) ==
  LET doc == rec.doc  xk == Range(rec.xkeys)  OK == OpKeys(doc, xk)
      idOf(k) == OpId(doc, xk, k)
      uniqueIds == { i \in { idOf(k) : k \in OK } \ {""} : Cardinality({ k \in OK : idOf(k) = i }) = 1 }
      expIds == BagOfSet(OK, LAMBDA k : IF idOf(k) # "" THEN idOf(k) ELSE k[1] \o " " \o k[2])
  IN
  [ ops      |-> { <<rec.ops[i].m, rec.ops[i].p, rec.ops[i].id>> : i \in DOMAIN rec.ops } = { <<k[1], k[2], idOf(k)>> : k \in OK }
                 /\ Len(rec.ops) = Cardinality(OK),
    opfor    |-> \A i \in DOMAIN rec.opfor : LET q == rec.opfor[i] IN
                   /\ q.found = (<<q.mu, q.p>> \in OK)
                   /\ (q.found => q.id = idOf(<<q.mu, q.p>>)),
    byname   |-> \A i \in DOMAIN rec.byname : LET q == rec.byname[i] IN
                   IF q.id \in uniqueIds THEN q.found /\ <<q.m, q.p>> \in OK /\ idOf(<<q.m, q.p>>) = q.id
                   ELSE (q.id \notin { idOf(k) : k \in OK }) => ~q.found,
    ids      |-> BagOfSeq(rec.ids) = expIds,
    mpaths   |-> BagOfSeq(rec.methodpaths) = BagOfSet(OK, LAMBDA k : k[1] \o " " \o k[2]),
    paths    |-> SeqSet(rec.paths) = DOMAIN PathItems(doc, xk) /\ NoDup(rec.paths),
    peropKeys |-> { <<rec.perop[i].m, rec.perop[i].p>> : i \in DOMAIN rec.perop } = OK,
    consumes |-> \A i \in DOMAIN rec.perop : LET q == rec.perop[i] IN <<q.m, q.p>> \in OK => SeqSet(q.consumes) = MediaFor(doc, OpNode(doc, xk, q.m, q.p), "consumes") /\ NoDup(q.consumes),
    produces |-> \A i \in DOMAIN rec.perop : LET q == rec.perop[i] IN <<q.m, q.p>> \in OK => SeqSet(q.produces) = MediaFor(doc, OpNode(doc, xk, q.m, q.p), "produces") /\ NoDup(q.produces),
    required |-> /\ SeqSet(rec.reqConsumes) = RequiredMedia(doc, xk, "consumes") /\ NoDup(rec.reqConsumes)
                 /\ SeqSet(rec.reqProduces) = RequiredMedia(doc, xk, "produces") /\ NoDup(rec.reqProduces)
                 /\ SeqSet(rec.reqSchemes) = RequiredSchemes(doc, xk) /\ NoDup(rec.reqSchemes),
    security |-> \A i \in DOMAIN rec.perop : LET q == rec.perop[i]  op == OpNode(doc, xk, q.m, q.p) IN <<q.m, q.p>> \in OK =>
                   /\ q.secNil = SecIsNil(doc, op)
                   /\ Len(q.sec) = Len(SecReqsFor(doc, op))
                   /\ \A j \in DOMAIN q.sec : { <<q.sec[j][x].name, q.sec[j][x].scopes>> : x \in DOMAIN q.sec[j] } = SecReqsFor(doc, op)[j]
                                              /\ Len(q.sec[j]) = Cardinality(SecReqsFor(doc, op)[j]),
    secdefs  |-> \A i \in DOMAIN rec.perop : LET q == rec.perop[i]  op == OpNode(doc, xk, q.m, q.p) IN <<q.m, q.p>> \in OK =>
                   /\ SeqSet(q.secdefs) = SecDefsFor(doc, op) /\ NoDup(q.secdefs)
                   /\ SeqSet(q.secdefsReq) = SecDefsFor(doc, op)
  ]

ParamQueryOK(rec, q) ==
  LET doc == rec.doc  xk == Range(rec.xkeys)
      exp  == BriefMap(EffectiveParams(doc, xk, q.mu, q.p, rec.gn))
      bad  == BadRefs(doc, xk, q.mu, q.p)
      got  == [k \in { q.result[i].key : i \in DOMAIN q.result } |-> LET e == q.result[CHOOSE i \in DOMAIN q.result : q.result[i].key = k] IN <<e.name, e.inn, e.ref, e.tag>>]
      gotv == { <<q.result[i].name, q.result[i].inn, q.result[i].ref, q.result[i].tag>> : i \in DOMAIN q.result }
  IN
  IF q.variant = "plain"
  THEN /\ q.panicked = (bad # <<>>)
       /\ (~q.panicked => IF q.byid THEN gotv = Range(exp) /\ Len(q.result) = Cardinality(DOMAIN exp) ELSE got = exp)
  ELSE /\ ~q.panicked
       /\ \A i \in DOMAIN q.result : ~q.result[i].ref        \* never an unresolved placeholder
       /\ IF q.policy = "continue"
          THEN /\ (IF q.byid THEN gotv = Range(exp) /\ Len(q.result) = Cardinality(DOMAIN exp) ELSE got = exp)
               /\ [i \in DOMAIN q.errors |-> <<q.errors[i].ref, q.errors[i].kind>>] = bad
          \* stopped half-way: what is returned are parameters the fold met under their keys (a path-level one may not have been overridden yet)
          ELSE /\ LET cand == Candidates(doc, xk, q.mu, q.p, rec.gn) IN
                  (IF q.byid THEN gotv \subseteq { c[2] : c \in cand } ELSE \A k \in DOMAIN got : <<k, got[k]>> \in cand)
               /\ (bad # <<>> => q.errors # <<>>)
               /\ \A i \in DOMAIN q.errors : \E j \in DOMAIN bad : <<q.errors[i].ref, q.errors[i].kind>> = bad[j]

Verdict(rec) ==
  LET c == C14Clauses(rec)
      badq == { i \in DOMAIN rec.params : ~ParamQueryOK(rec, rec.params[i]) }
  IN
  /\ Out(<<"VERDICT", rec.tid, "C14", \A f \in DOMAIN c : c[f]>>)
  /\ Diag(rec.tid, "C14", "clause", { <<f>> : f \in { g \in DOMAIN c : ~c[g] } })
  /\ Out(<<"VERDICT", rec.tid, "C15", badq = {}>>)
  /\ (badq = {} \/ LET q == rec.params[CHOOSE i \in badq : TRUE] IN
                     Out(<<"DIAG", rec.tid, "C15", q.variant \o "." \o q.policy \o (IF q.byid THEN ".byid" ELSE ".bypath") \o (IF q.panicked THEN ".panicked" ELSE ""),
                           <<q.kind>>, q.result, q.errors>>))
  /\ Out(<<"STAT", rec.tid, Cardinality(OpKeys(rec.doc, Range(rec.xkeys))), Len(rec.params),
           Cardinality({ i \in DOMAIN rec.params : BadRefs(rec.doc, Range(rec.xkeys), rec.params[i].mu, rec.params[i].p) # <<>> })>>)

Init == l \in 1..K /\ l <= N /\ Verdict(Trace[l])
Next == l + K <= N /\ l' = l + K /\ Verdict(Trace[l'])
Spec == Init /\ [][Next]_l
=============================================================================
