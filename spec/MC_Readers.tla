---- MODULE MC_Readers ----
EXTENDS Readers
QS == {<<"map", "patterns">>, <<"map", "enums">>, <<"list", "refs">>, <<"scalar", "opfor">>}
====
