SPECIFICATION TSpec
CONSTANT K = 4
CHECK_DEADLOCK FALSE
