----------------------------- MODULE Scenarios ------------------------------
(***************************************************************************)
(* Builders of small documents: a PLANT (a $ref, a pattern, an enum) is    *)
(* wrapped in schema CARRIERS (one per schema-bearing keyword) and PLACED  *)
(* in a SECTION of a Swagger document.  TLC enumerates the product; the    *)
(* harness concretizes every enumerated document (placeholders N_i / P_i   *)
(* become names of the property alphabet) and runs the real code on it.    *)
(***************************************************************************)
EXTENDS Analyzer

Leaf(t)     == Mk([type |-> t], <<>>)
RefTo(r)    == Mk(("$ref" :> r), <<>>)
MapOf(k, v) == Mk(<<>>, (k :> v))
Obj(ch)     == Mk([type |-> "object"], ch)

\* ---- plants inside a schema ---------------------------------------------------------------
SchemaPlants == {"ref", "pattern", "enum"}
PlantSchema(p) ==
  CASE p = "ref"     -> RefTo(<<"root", "definitions", "N_9">>)
    [] p = "pattern" -> Mk([type |-> "string", pattern |-> "a-z"], <<>>)
    [] p = "enum"    -> Mk([type |-> "string", enum |-> <<"a", "b">>], <<>>)

\* ---- carriers: every keyword of the schema model that can hold a schema ---------------------
Carriers == {"prop", "patprop", "defs", "items", "tuple", "addprops", "additems_tuple",
             "additems_single", "additems_bare", "allOf", "anyOf", "oneOf", "not",
             "allOf_scalar", "prop_scalar", "refsib"}
\* carriers that add a $ref of their own (the planted schema sits beside a $ref)
RefCarriers == {"refsib"}
Wrap(k, s) ==
  CASE k = "prop"     -> Obj([properties |-> Mk(<<>>, ("N_1" :> s) @@ ("N_11" :> Leaf("number")))])
    \* (map-valued carriers get a sibling of a different shape: an index entry must carry ITS schema, not a neighbour's)
    [] k = "patprop"  -> Obj([patternProperties |-> Mk(<<>>, ("N_2" :> s) @@ ("N_12" :> Leaf("integer")))])
    [] k = "defs"     -> Obj([definitions |-> Mk(<<>>, ("N_3" :> s) @@ ("N_13" :> Leaf("boolean")))])
    [] k = "items"    -> Mk([type |-> "array"], [items |-> s])
    [] k = "tuple"    -> Mk([type |-> "array"], [items |-> ListOf(<<Leaf("integer"), s>>)])
    [] k = "addprops" -> Obj([additionalProperties |-> s])
    [] k = "additems_tuple"  -> Mk([type |-> "array"], [items |-> ListOf(<<Leaf("integer")>>), additionalItems |-> s])
    [] k = "additems_single" -> Mk([type |-> "array"], [items |-> Leaf("integer"), additionalItems |-> s])
    [] k = "additems_bare"   -> Mk([type |-> "array"], [additionalItems |-> s])
    [] k = "allOf"    -> Mk(<<>>, [allOf |-> ListOf(<<s, Leaf("string")>>)])
    [] k = "anyOf"    -> Mk(<<>>, [anyOf |-> ListOf(<<Leaf("string"), s>>)])
    [] k = "oneOf"    -> Mk(<<>>, [oneOf |-> ListOf(<<s>>)])
    [] k = "not"      -> Mk(<<>>, [not |-> s])
    \* a schema typed as a scalar that nevertheless carries sub-schemas
    [] k = "allOf_scalar" -> Mk([type |-> "string"], [allOf |-> ListOf(<<s, Leaf("string")>>)])
    [] k = "prop_scalar"  -> Mk([type |-> "integer"], [properties |-> Mk(<<>>, ("N_1" :> s))])
    \* a $ref with schema-bearing siblings: the siblings are schemas of the document all the same
    [] k = "refsib"   -> Mk(("$ref" :> <<"root", "definitions", "N_9">>), [properties |-> Mk(<<>>, ("N_1" :> s)), allOf |-> ListOf(<<Leaf("boolean")>>)])

\* ---- documents ------------------------------------------------------------------------------
Skeleton == Mk([swagger |-> "2.0"], [info |-> Mk([title |-> "t", version |-> "1"], <<>>), paths |-> Empty])
Target   == Obj([properties |-> MapOf("N_8", Leaf("string"))])     \* definitions/N_9, so planted $refs resolve

WithDefs(doc, defs)  == [doc EXCEPT !.ch = [definitions |-> Mk(<<>>, defs)] @@ @]
BodyParam(s)         == Mk(("in" :> "body") @@ [name |-> "body"], [schema |-> s])
Resp(ch)             == Mk([description |-> "ok"], ch)
Op(ch)               == Mk([operationId |-> "op1"], ch)
OkResponses          == Mk(<<>>, ("200" :> Resp(<<>>)))

SchemaSections == { <<"-", w>> : w \in {"def", "sharedParam", "sharedResp", "pathParam"} } \cup
                  { <<m, w>> : m \in Methods, w \in {"opParam", "opRespCode", "opRespDefault"} }

PathItemWith(ch) == Mk(<<>>, ch)
DocWithPaths(pi, extra) ==
  [Skeleton EXCEPT !.ch = ([paths |-> Mk(<<>>, [P_1 |-> pi]), definitions |-> Mk(<<>>, [N_9 |-> Target])] @@ extra) @@ @]

PlaceSchema(sec, s) ==
  CASE sec[2] = "def" ->
         [Skeleton EXCEPT !.ch = [definitions |-> Mk(<<>>, [N_9 |-> Target, N_7 |-> s])] @@ @]
    [] sec[2] = "sharedParam" ->
         [Skeleton EXCEPT !.ch = [definitions |-> Mk(<<>>, [N_9 |-> Target]),
                                  parameters |-> Mk(<<>>, [N_6 |-> BodyParam(s)])] @@ @]
    [] sec[2] = "sharedResp" ->
         [Skeleton EXCEPT !.ch = [definitions |-> Mk(<<>>, [N_9 |-> Target]),
                                  responses |-> Mk(<<>>, [N_5 |-> Resp([schema |-> s])])] @@ @]
    [] sec[2] = "pathParam" ->
         DocWithPaths(PathItemWith([parameters |-> ListOf(<<BodyParam(s)>>),
                                    get |-> Op([responses |-> OkResponses])]), <<>>)
    [] OTHER ->
         LET m == sec[1]  w == sec[2] IN
         CASE w = "opParam" ->
                DocWithPaths(PathItemWith((m :> Op([parameters |-> ListOf(<<BodyParam(s)>>), responses |-> OkResponses]))), <<>>)
           [] w = "opRespCode" ->
                DocWithPaths(PathItemWith((m :> Op([responses |-> Mk(<<>>, ("200" :> Resp([schema |-> s])))]))), <<>>)
           [] w = "opRespDefault" ->
                DocWithPaths(PathItemWith((m :> Op([responses |-> Mk(<<>>, [ default |-> Resp([schema |-> s]) ])]))), <<>>)

\* ---- simple-schema owners: parameters, headers, items ---------------------------------------
SimplePlants == {"pattern", "enum", "both"}
Decor(n, p) ==
  CASE p = "pattern" -> [n EXCEPT !.at = [pattern |-> "a-z"] @@ @]
    [] p = "enum"    -> [n EXCEPT !.at = [enum |-> <<"a", "b">>] @@ @]
    [] p = "both"    -> [n EXCEPT !.at = [pattern |-> "a-z", enum |-> <<"a", "b">>] @@ @]
    [] p = "itemsref" -> [n EXCEPT !.at = ("$ref" :> <<"root", "definitions", "N_9">>) @@ @]
    \* a $ref on EVERY level of the items chain (multiplicity: one entry per level, all to the same target)
    [] p = "itemsrefall" -> [n EXCEPT !.at = ("$ref" :> <<"root", "definitions", "N_9">>) @@ @]
    [] OTHER         -> n

\* the plant sits on the owner itself (depth 0) or on items nested depth levels below it
RECURSIVE ItemsChain(_, _)
ItemsChain(depth, p) ==
  IF depth = 0 THEN Decor(Leaf("string"), p)
  ELSE LET lvl == Mk([type |-> "array"], [items |-> ItemsChain(depth - 1, p)])
       IN IF p = "itemsrefall" THEN Decor(lvl, p) ELSE lvl
SimpleOwner(base, depth, p) ==
  IF depth = 0 THEN Decor(base, p)
  ELSE [base EXCEPT !.at = [type |-> "array"] @@ @, !.ch = [items |-> ItemsChain(depth - 1, p)] @@ @]

QueryParam == Mk(("in" :> "query") @@ [name |-> "q", type |-> "string"], <<>>)
Header     == Leaf("string")

SimpleSections == { <<"-", w>> : w \in {"sharedParam", "pathParam", "sharedRespHeader", "sharedBodyParam", "pathBodyParam"} } \cup
                  { <<m, w>> : m \in Methods, w \in {"opParam", "codeHeader", "defaultHeader", "opBodyParam"} }
\* a body parameter that ALSO carries simple-schema keywords (outside Swagger 2.0, loadable: the analyzer walks items of every parameter)
BodyWithItems(par) == [par EXCEPT !.at = ("in" :> "body") @@ @, !.ch = [schema |-> Leaf("string")] @@ @]
PlaceSimple(sec, depth, p) ==
  LET par == SimpleOwner(QueryParam, depth, p)
      hdr == SimpleOwner(Header, depth, p)
  IN
  CASE sec[2] = "sharedParam" ->
         [Skeleton EXCEPT !.ch = [definitions |-> Mk(<<>>, [N_9 |-> Target]), parameters |-> Mk(<<>>, [N_6 |-> par])] @@ @]
    [] sec[2] = "pathParam" ->
         DocWithPaths(PathItemWith([parameters |-> ListOf(<<par>>), get |-> Op([responses |-> OkResponses])]), <<>>)
    [] sec[2] = "sharedBodyParam" ->
         [Skeleton EXCEPT !.ch = [definitions |-> Mk(<<>>, [N_9 |-> Target]), parameters |-> Mk(<<>>, [N_6 |-> BodyWithItems(par)])] @@ @]
    [] sec[2] = "pathBodyParam" ->
         DocWithPaths(PathItemWith([parameters |-> ListOf(<<BodyWithItems(par)>>), get |-> Op([responses |-> OkResponses])]), <<>>)
    [] sec[2] = "sharedRespHeader" ->
         [Skeleton EXCEPT !.ch = [definitions |-> Mk(<<>>, [N_9 |-> Target]),
                                  responses |-> Mk(<<>>, [N_5 |-> Resp([headers |-> MapOf("X-Rate", hdr)])])] @@ @]
    [] OTHER ->
         LET m == sec[1]  w == sec[2] IN
         CASE w = "opParam" ->
                DocWithPaths(PathItemWith((m :> Op([parameters |-> ListOf(<<par>>), responses |-> OkResponses]))), <<>>)
           [] w = "opBodyParam" ->
                DocWithPaths(PathItemWith((m :> Op([parameters |-> ListOf(<<BodyWithItems(par)>>), responses |-> OkResponses]))), <<>>)
           [] w = "codeHeader" ->
                DocWithPaths(PathItemWith((m :> Op([responses |-> Mk(<<>>, ("200" :> Resp([headers |-> MapOf("X-Rate", hdr)])))]))), <<>>)
           [] w = "defaultHeader" ->
                DocWithPaths(PathItemWith((m :> Op([responses |-> Mk(<<>>, [ default |-> Resp([headers |-> MapOf("X-Rate", hdr)]) ])]))), <<>>)

\* ---- $refs on non-schema holders ---------------------------------------------------------------
SharedParam == Mk(<<>>, [N_6 |-> QueryParam])
SharedResp  == Mk(<<>>, [N_5 |-> Resp(<<>>)])
ParamRef    == RefTo(<<"root", "parameters", "N_6">>)
RespRef     == RefTo(<<"root", "responses", "N_5">>)
HolderSections == { <<"-", "pathParamRef">> } \cup { <<m, w>> : m \in Methods, w \in {"opParamRef", "codeRespRef", "defaultRespRef", "pathItemRef"} }
PlaceHolder(sec) ==
  LET shared == [parameters |-> SharedParam, responses |-> SharedResp] IN
  CASE sec[2] = "pathParamRef" ->
         DocWithPaths(PathItemWith([parameters |-> ListOf(<<ParamRef>>), get |-> Op([responses |-> OkResponses])]), shared)
    [] OTHER ->
         LET m == sec[1]  w == sec[2] IN
         CASE w = "opParamRef" ->
                DocWithPaths(PathItemWith((m :> Op([parameters |-> ListOf(<<QueryParam, ParamRef>>), responses |-> OkResponses]))), shared)
           [] w = "codeRespRef" ->
                DocWithPaths(PathItemWith((m :> Op([responses |-> Mk(<<>>, ("404" :> RespRef))]))), shared)
           [] w = "defaultRespRef" ->
                DocWithPaths(PathItemWith((m :> Op([responses |-> Mk(<<>>, [ default |-> RespRef ])]))), shared)
           [] w = "pathItemRef" ->
                \* a path item that is a $ref AND has sibling operations holding $refs of their own
                DocWithPaths([PathItemWith((m :> Op([parameters |-> ListOf(<<ParamRef, BodyParam(RefTo(<<"root", "definitions", "N_9">>))>>),
                                                     responses |-> Mk(<<>>, ("200" :> Resp([schema |-> RefTo(<<"root", "definitions", "N_9">>)])) @@ [default |-> RespRef])])))
                              EXCEPT !.at = ("$ref" :> <<"root", "paths", "P_2">>)], shared)
=============================================================================
