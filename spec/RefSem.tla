------------------------------ MODULE RefSem -------------------------------
(***************************************************************************)
(* What a $ref MEANS.  A bundle is a function docId -> Node with a         *)
(* distinguished "root"; a position is <<docId>> \o path.                  *)
(*                                                                         *)
(*  Res          follows $ref attributes to the first non-$ref position    *)
(*  SameMeaning  bisimilarity of the $ref-unfolded (possibly infinite)     *)
(*               trees denoted by two positions of two bundles             *)
(*  Holders      where the $refs are, with the type of their holder        *)
(*  HasCycle     the $ref graph of a bundle has a cycle                    *)
(***************************************************************************)
EXTENDS Swagger

Dangling == <<"?dangling">>
Looping  == <<"?loop">>
Bad      == {Dangling, Looping}

Valid(b, pos)  == pos # <<>> /\ Head(pos) \in DOMAIN b /\ Has(b[Head(pos)], Tail(pos))
NodeAt(b, pos) == At(b[Head(pos)], Tail(pos))

RECURSIVE ResF(_, _, _)
ResF(b, pos, fuel) ==
  IF ~Valid(b, pos) THEN Dangling
  ELSE LET n == NodeAt(b, pos) IN
       IF ~HasRef(n) THEN pos
       ELSE IF fuel = 0 THEN Looping
       ELSE ResF(b, RefOf(n), fuel - 1)

Fuel == 64
Res(b, pos) == ResF(b, pos, Fuel)

\* attributes that matter for the meaning of a node
Markers  == {"$ref", "x-go-gen-location"}
Local(n) == [a \in DOMAIN n.at \ Markers |-> n.at[a]]

Compat(b1, p, b2, q) ==
  /\ p \notin Bad /\ q \notin Bad
  /\ LET n == NodeAt(b1, p)
         m == NodeAt(b2, q)
     IN Local(n) = Local(m) /\ DOMAIN n.ch = DOMAIN m.ch

Succ(b1, b2, pr) ==
  { <<Res(b1, Append(pr[1], l)), Res(b2, Append(pr[2], l))>> : l \in DOMAIN NodeAt(b1, pr[1]).ch }

RECURSIVE Explore(_, _, _, _)
Explore(b1, b2, seen, front) ==
  IF front = {} THEN TRUE
  ELSE IF \E pr \in front : ~Compat(b1, pr[1], b2, pr[2]) THEN FALSE
  ELSE LET seen2 == seen \cup front
       IN Explore(b1, b2, seen2, (UNION { Succ(b1, b2, pr) : pr \in front }) \ seen2)

SameMeaning(b1, p, b2, q) == Explore(b1, b2, {}, { <<Res(b1, p), Res(b2, q)>> })

\* first incompatible pair, for diagnostics (<<>> when bisimilar)
RECURSIVE Witness(_, _, _, _)
Witness(b1, b2, seen, front) ==
  IF front = {} THEN <<>>
  ELSE IF \E pr \in front : ~Compat(b1, pr[1], b2, pr[2])
       THEN CHOOSE pr \in front : ~Compat(b1, pr[1], b2, pr[2])
       ELSE LET seen2 == seen \cup front
            IN Witness(b1, b2, seen2, (UNION { Succ(b1, b2, pr) : pr \in front }) \ seen2)
WhyNot(b1, p, b2, q) == Witness(b1, b2, {}, { <<Res(b1, p), Res(b2, q)>> })

(***************************************************************************)
(* Holders of a document: <<path, type, ref>> for every typed, non-opaque  *)
(* node carrying a $ref.                                                   *)
(***************************************************************************)
HoldersTD(doc, TD) ==
  { <<x[1], x[2], RefOf(At(doc, x[1]))>> : x \in { y \in TD : y[2] # "opaque" /\ HasRef(At(doc, y[1])) } }
Holders(doc, xk) == HoldersTD(doc, TypedDoc(doc, xk, TRUE))

\* every $ref anywhere (typed or not), as <<path, ref>>
RECURSIVE AllRefsIn(_, _)
AllRefsIn(n, p) ==
  (IF HasRef(n) THEN {<<p, RefOf(n)>>} ELSE {}) \cup
  UNION { AllRefsIn(n.ch[l], Append(p, l)) : l \in DOMAIN n.ch }

(***************************************************************************)
(* $ref graph of a bundle: nodes are the targets of $refs, with an edge    *)
(* T1 -> T2 when the subtree at T1 holds a $ref to T2.  A holder that      *)
(* (directly or not) reaches its own target is what makes expansion        *)
(* infinite.                                                               *)
(***************************************************************************)
BundleRefs(b) == UNION { { <<(<<d>> \o x[1]), x[2]>> : x \in AllRefsIn(b[d], <<>>) } : d \in DOMAIN b }
Targets(b)    == { x[2] : x \in BundleRefs(b) }
Edges(b) ==
  LET BR == BundleRefs(b) IN
  UNION { { <<t1, y[2]>> : y \in { z \in BR : IsPrefixOf(t1, z[1]) } } : t1 \in Targets(b) }

RECURSIVE Closure(_, _)
Closure(R, E) ==
  LET R2 == R \cup { <<q[1][1], q[2][2]>> : q \in { z \in R \X E : z[1][2] = z[2][1] } }
  IN IF R2 = R THEN R ELSE Closure(R2, E)
HasCycle(b) == LET E == Edges(b) IN \E x \in Closure(E, E) : x[1] = x[2]
=============================================================================
