SPECIFICATION Spec
CONSTANT MaxDepth = 2
CONSTANT MaxItems = 2
CONSTANT Export = TRUE
INVARIANT PlantFound
INVARIANT KindsPartition
INVARIANT ExportDoc
CHECK_DEADLOCK FALSE
