------------------------------- MODULE Tree -------------------------------
(***************************************************************************)
(* Attributed trees: the abstract state every other module reasons about. *)
(*                                                                         *)
(*   Node == [ at : [AttrName -> Scalar], ch : [Label -> Node] ]           *)
(*                                                                         *)
(* A JSON object is a node; members whose value is an object or an array   *)
(* of objects are children (array elements labelled "0","1",... and the    *)
(* list node carries at.__list = "1"); every other member is an attribute  *)
(* (a string, or a sequence of strings).  "$ref" is the attribute whose    *)
(* value is the PARSED reference <<docId, tok1, ..., tokn>>.               *)
(* A path is a sequence of labels; a position is <<docId>> \o path.        *)
(***************************************************************************)
EXTENDS Naturals, Sequences, FiniteSets, TLC

Empty      == [at |-> <<>>, ch |-> <<>>]
Mk(a, c)   == [at |-> a, ch |-> c]
Attrs(n)   == DOMAIN n.at
Kids(n)    == DOMAIN n.ch
HasAttr(n, a) == a \in DOMAIN n.at
IsList(n)  == "__list" \in DOMAIN n.at
HasRef(n)  == "$ref" \in DOMAIN n.at
RefOf(n)   == n.at["$ref"]

RECURSIVE Has(_, _)
Has(n, p) == p = <<>> \/ (Head(p) \in DOMAIN n.ch /\ Has(n.ch[Head(p)], Tail(p)))

RECURSIVE At(_, _)
At(n, p) == IF p = <<>> THEN n ELSE At(n.ch[Head(p)], Tail(p))

\* functional update: replace (or create) the node at path p
RECURSIVE SetAt(_, _, _)
SetAt(n, p, v) ==
  IF p = <<>> THEN v
  ELSE LET l == Head(p)
           c == IF l \in DOMAIN n.ch THEN n.ch[l] ELSE Empty
       IN [n EXCEPT !.ch = (l :> SetAt(c, Tail(p), v)) @@ n.ch]

\* remove the child designated by the (non-empty) path p, if present
RECURSIVE DelAt(_, _)
DelAt(n, p) ==
  IF p = <<>> \/ Head(p) \notin DOMAIN n.ch THEN n
  ELSE IF Len(p) = 1
       THEN [n EXCEPT !.ch = [l \in DOMAIN n.ch \ {Head(p)} |-> n.ch[l]]]
       ELSE [n EXCEPT !.ch = (Head(p) :> DelAt(n.ch[Head(p)], Tail(p))) @@ n.ch]

SetAttr(n, a, v) == [n EXCEPT !.at = (a :> v) @@ n.at]
DelAttr(n, a)    == [n EXCEPT !.at = [x \in DOMAIN n.at \ {a} |-> n.at[x]]]

\* all paths of a tree (including the empty path)
RECURSIVE Paths(_)
Paths(n) == {<<>>} \cup UNION { { <<l>> \o q : q \in Paths(n.ch[l]) } : l \in DOMAIN n.ch }

RECURSIVE Size(_)
Size(n) == 1 + (LET S == DOMAIN n.ch IN
                IF S = {} THEN 0
                ELSE LET RECURSIVE Sum(_)
                         Sum(T) == IF T = {} THEN 0
                                   ELSE LET x == CHOOSE y \in T : TRUE
                                        IN Size(n.ch[x]) + Sum(T \ {x})
                     IN Sum(S))

IsPrefixOf(p, q) == Len(p) <= Len(q) /\ SubSeq(q, 1, Len(p)) = p
Last(s)   == s[Len(s)]
Front(s)  == SubSeq(s, 1, Len(s) - 1)
Range(s)  == { s[i] : i \in DOMAIN s }

\* bag (multiset) of the elements of a sequence, as a function element -> count
BagOfSeq(s) == [x \in Range(s) |-> Cardinality({ i \in DOMAIN s : s[i] = x })]
\* bag of f(p) for p ranging over the set P
BagOfSet(P, F(_)) == [v \in { F(p) : p \in P } |-> Cardinality({ p \in P : F(p) = v })]
NoDup(s) == \A i, j \in DOMAIN s : s[i] = s[j] => i = j

\* list nodes <-> sequences of nodes
ListOf(s)  == Mk([__list |-> "1"], [i \in { ToString(j - 1) : j \in DOMAIN s } |-> s[CHOOSE j \in DOMAIN s : ToString(j - 1) = i]])
ListSeq(n) == [i \in 1..Cardinality(DOMAIN n.ch) |-> n.ch[ToString(i - 1)]]
SelectSeq2(s, Test(_)) == SelectSeq(s, Test)

\* where two trees first differ (<<>> when equal): <<path, what>>
RECURSIVE TreeDiff(_, _, _)
TreeDiff(a, b, p) ==
  IF a = b THEN <<>>
  ELSE IF a.at # b.at THEN <<p, "attrs", a.at, b.at>>
  ELSE IF DOMAIN a.ch # DOMAIN b.ch THEN <<p, "children", DOMAIN a.ch \ DOMAIN b.ch, DOMAIN b.ch \ DOMAIN a.ch>>
  ELSE LET l == CHOOSE x \in DOMAIN a.ch : a.ch[x] # b.ch[x] IN TreeDiff(a.ch[l], b.ch[l], Append(p, l))

\* one-line machine-readable output (ToString avoids TLC's pretty-printer line wrapping)
Out(v) == PrintT(ToString(v))
\* report one element of a non-empty difference set
Diag(tid, prop, clause, S) == S = {} \/ Out(<<"DIAG", tid, prop, clause, CHOOSE x \in S : TRUE>>)
=============================================================================
