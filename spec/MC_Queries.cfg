SPECIFICATION Spec
CONSTANT Family = "media"
CONSTANT Export = TRUE
INVARIANT InvMedia
INVARIANT InvSecurity
INVARIANT InvParams
INVARIANT ExportDoc
CHECK_DEADLOCK FALSE
