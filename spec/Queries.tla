------------------------------ MODULE Queries -------------------------------
(***************************************************************************)
(* The query layer of the analyzer as functions of the document (C14, C15) *)
(*                                                                         *)
(*  Ops, OperationFor, ids and listings, media types, security             *)
(*  requirements and definitions (precedence: operation over document,     *)
(*  an explicitly empty list disables security);                           *)
(*  effective parameters: path-level overridden by operation-level under   *)
(*  the key in#GoName, $refs replaced by the shared parameter, bad $refs   *)
(*  reported through the callback / panic.                                 *)
(*                                                                         *)
(* gn = the relation parameter name -> swag.ToGoName(name) (computed       *)
(* outside the repository, supplied with each case).                       *)
(***************************************************************************)
EXTENDS Swagger

KidMap(n, s)   == IF s \in DOMAIN n.ch THEN n.ch[s].ch ELSE <<>>
AttrSeq(n, a)  == IF a \in DOMAIN n.at THEN n.at[a] ELSE <<>>
AttrStr(n, a)  == IF a \in DOMAIN n.at THEN n.at[a] ELSE ""
KidSeq(n, c)   == IF c \in DOMAIN n.ch THEN ListSeq(n.ch[c]) ELSE <<>>

PathItems(doc, xk) == [p \in DOMAIN KidMap(doc, "paths") \ xk |-> KidMap(doc, "paths")[p]]
\* <<METHOD, path>> of every operation
OpKeys(doc, xk) == { <<Upper(m), p>> : <<m, p>> \in { mp \in Methods \X DOMAIN PathItems(doc, xk) : mp[1] \in DOMAIN PathItems(doc, xk)[mp[2]].ch } }
OpNode(doc, xk, M, p) == PathItems(doc, xk)[p].ch[Lower(M)]
OpId(doc, xk, k) == AttrStr(OpNode(doc, xk, k[1], k[2]), "operationId")

\* ---- media types -------------------------------------------------------------------------------
MediaFor(doc, op, a) == IF AttrSeq(op, a) # <<>> THEN Range(AttrSeq(op, a)) ELSE Range(AttrSeq(doc, a))
RequiredMedia(doc, xk, a) == Range(AttrSeq(doc, a)) \cup UNION { Range(AttrSeq(OpNode(doc, xk, k[1], k[2]), a)) : k \in OpKeys(doc, xk) }

\* ---- security ----------------------------------------------------------------------------------
\* a requirement node has one attribute per scheme name (value: the scopes)
SecState(n) == IF "security" \in DOMAIN n.ch THEN "list" ELSE IF "security" \in DOMAIN n.at THEN "empty" ELSE "absent"
SecList(n)  == IF SecState(n) = "list" THEN ListSeq(n.ch["security"]) ELSE <<>>
ReqOf(r)    == IF DOMAIN r.at = {} THEN {<<"", <<>>>>} ELSE { <<a, r.at[a]>> : a \in DOMAIN r.at }
\* the effective list of alternatives: the operation's when it declares any (even empty), else the document's
EffectiveSec(doc, op) == IF SecState(op) # "absent" THEN SecList(op) ELSE SecList(doc)
SecIsNil(doc, op)     == SecState(op) = "absent" /\ SecState(doc) = "absent"
\* as a sequence of sets of <<name, scopes>>
SecReqsFor(doc, op)   == [i \in DOMAIN EffectiveSec(doc, op) |-> ReqOf(EffectiveSec(doc, op)[i])]
SchemeNames(doc, op)  == UNION { { x[1] : x \in ReqOf(EffectiveSec(doc, op)[i]) } : i \in DOMAIN EffectiveSec(doc, op) } \ {""}
SecDefsFor(doc, op)   == SchemeNames(doc, op) \cap DOMAIN KidMap(doc, "securityDefinitions")
RequiredSchemes(doc, xk) ==
  LET names(n) == UNION { DOMAIN SecList(n)[i].at : i \in DOMAIN SecList(n) } IN
  names(doc) \cup UNION { names(OpNode(doc, xk, k[1], k[2])) : k \in OpKeys(doc, xk) }

\* ---- effective parameters ---------------------------------------------------------------------------
ParamName(n)   == AttrStr(n, "name")
\* the override key is (location, name); the Go-ified name is how the code spells it (GoName is injective on generated names)
ParamKey(n, gn) == AttrStr(n, "in") \o "#" \o (IF ParamName(n) \in DOMAIN gn THEN gn[ParamName(n)] ELSE ParamName(n))
\* what a parameter $ref designates
RefKind(doc, r) ==
  IF Len(r) = 3 /\ r[1] = "root" /\ r[2] = "parameters" /\ r[3] \in DOMAIN KidMap(doc, "parameters") THEN "param"
  ELSE IF Len(r) >= 1 /\ r[1] = "root" /\ Has(doc, Tail(r)) THEN "notparam"
  ELSE "dangling"
Resolved(doc, n) == IF HasRef(n) THEN KidMap(doc, "parameters")[RefOf(n)[3]] ELSE n
BadParam(doc, n) == HasRef(n) /\ RefKind(doc, RefOf(n)) # "param"

ParamList(doc, xk, M, p) ==
  IF p \notin DOMAIN PathItems(doc, xk) THEN <<>>
  ELSE KidSeq(PathItems(doc, xk)[p], "parameters")
       \o (IF <<M, p>> \in OpKeys(doc, xk) THEN KidSeq(OpNode(doc, xk, M, p), "parameters") ELSE <<>>)

\* fold with "continue" policy: bad $refs are skipped (and reported), later entries override earlier ones under the same key
RECURSIVE FoldParams(_, _, _, _)
FoldParams(doc, ps, gn, acc) ==
  IF ps = <<>> THEN acc
  ELSE LET n == Head(ps) IN
       IF BadParam(doc, n) THEN FoldParams(doc, Tail(ps), gn, acc)
       ELSE LET r == Resolved(doc, n) IN FoldParams(doc, Tail(ps), gn, (ParamKey(r, gn) :> r) @@ acc)
EffectiveParams(doc, xk, M, p, gn) == FoldParams(doc, ParamList(doc, xk, M, p), gn, <<>>)
BadRefs(doc, xk, M, p) ==
  LET L == ParamList(doc, xk, M, p) IN SelectSeq([i \in DOMAIN L |-> IF BadParam(doc, L[i]) THEN <<RefOf(L[i]), RefKind(doc, RefOf(L[i]))>> ELSE <<>>], LAMBDA x : x # <<>>)

\* projection of a parameter map to what the harness records: key -> <<name, in, hasRef, description|type>>
Brief(n) == <<ParamName(n), AttrStr(n, "in"), HasRef(n), AttrStr(n, "description") \o "|" \o AttrStr(n, "type")>>
BriefMap(f) == [k \in DOMAIN f |-> Brief(f[k])]
\* every (key, parameter) the fold meets, overridden or not (what a run stopped half-way may hold)
Candidates(doc, xk, M, p, gn) ==
  LET L == ParamList(doc, xk, M, p) IN
  { <<ParamKey(Resolved(doc, L[i]), gn), Brief(Resolved(doc, L[i]))>> : i \in { j \in DOMAIN L : ~BadParam(doc, L[j]) } }
=============================================================================
