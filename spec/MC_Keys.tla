------------------------------- MODULE MC_Keys -------------------------------
(***************************************************************************)
(* Every name up to MaxLen characters over the alphabet of Keys.tla:       *)
(*  - with the current formulas (Fixed) all round-trip laws hold;          *)
(*  - with the formulas of the pinned upstream tree each law fails exactly *)
(*    on a character class (this reproduces, inside the model, the         *)
(*    defects the checks found on the real code, and so validates the      *)
(*    transcription).                                                      *)
(* Every name is exported; the harness plants it in every role (root /     *)
(* remote definition, property holding an inline schema / a $ref) of a     *)
(* few scenario bundles and runs the real analyzer and flattener on them.  *)
(***************************************************************************)
EXTENDS Keys, Json
CONSTANTS MaxLen, Export

VARIABLES name, done
Init == name = <<>> /\ done = FALSE
Extend(c) == ~done /\ Len(name) < MaxLen /\ name' = Append(name, c) /\ done' = FALSE
Stop == ~done /\ name # <<>> /\ done' = TRUE /\ UNCHANGED name
Next == (\E c \in Alphabet : Extend(c)) \/ Stop
Spec == Init /\ [][Next]_<<name, done>>

HasPair(n, a, b) == \E i \in 1..(Len(n) - 1) : n[i] = a /\ n[i + 1] = b
\* names the properties exclude: '.' and '..' are not in the alphabet; a leading/trailing or doubled '/' is cleaned by path.Join only
\* in the OLD formula of L6 (raw name joined), so it is classified there
InvFixed == done => AllLaws(name, TRUE)
InvOldL2 == done => (L2(Defs, name, FALSE) <=> ~NeedsPtr(name))
InvOldL3 == done => /\ (L3used(name, FALSE) <=> ~NeedsUrl(name))
                    /\ (L3deleted(name, FALSE) = name <=> ~NeedsPtr(name))
InvOldL4 == done => (L4(name, FALSE) <=> ~Has(name, "#"))
InvOldL5 == done => (L5(name, FALSE) <=> ~NeedsUrl(name))
InvOldL6 == done => (L6(name, FALSE) <=> ~(Has(name, "/") \/ HasPair(name, "~", "0") \/ HasPair(name, "~", "1")))
ExportName == (done /\ Export) => PrintT(ToJson([name |-> name]))
=============================================================================
