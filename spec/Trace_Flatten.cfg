SPECIFICATION Spec
CONSTANT K = 16
CHECK_DEADLOCK FALSE
