---------------------------- MODULE FlattenScen -----------------------------
(***************************************************************************)
(* S1: the scenario families of bundles for Flatten.  A bundle is          *)
(* assembled from independent choices, each ranging over a small set:      *)
(*   target kind  (where the $ref points: local / auxiliary document at    *)
(*                 directory depth 0,1,2 / transitive / self-, mutually    *)
(*                 recursive / array-, map-of-itself / anonymous pointer / *)
(*                 pointer into a shared parameter or response)            *)
(*   target shape (primitive, object, array of $ref, tuple, allOf, map)    *)
(*   holder kind  (where the $ref sits: 16 kinds)                          *)
(*   second holder (commonality), collision pattern (name conflicts)       *)
(* Documents: root api/root.json, aux1 api/sub/a.json,                     *)
(*            aux2 api/sub/deep/b.json, aux3 common/root.json (a namesake  *)
(*            of the root document)                                        *)
(***************************************************************************)
EXTENDS Scenarios

TargetKinds == {"local", "aux1", "aux2", "aux3", "trans", "selfrec", "mutual", "arrayself", "mapself",
                "auxarrayself", "anonprop", "anonitems", "anonallof", "anonsibling", "sharedparam", "sharedresp", "diamond",
                "uptrans", "crosstrans", "recdep", "recmap", "anonimport", "auxcase", "anoncase", "auxempty", "anonbackup"}
Shapes      == {"prim", "object", "arrayref", "tuple", "allof", "map", "nested", "ptrarray", "ref", "additemsref", "nestedfree"}
HolderKinds == {"prop", "items", "tuple", "addprops", "additems", "allof", "alias", "opbody", "pathbody",
                "code", "default", "sharedparam", "sharedresp", "nested", "opnested", "opitems",
                "auxresp", "auxparam", "auxpathitem", "unusedparam", "unusedresp", "unusedalias", "casesiblings", "pathbodyinline", "oddcode", "dupids", "refsib", "unuseddef", "additems1",
                "patprop", "anyof", "oneof", "not", "nesteddefs"}
AuxHolders  == {"auxresp", "auxparam", "auxpathitem"}
SecondKinds == {"none", "code", "prop2", "same", "codes2"}
Collisions  == {"none", "exact", "case", "twoimports", "gennames", "gennames2"}

AuxTargets  == {"aux1", "aux2", "aux3", "trans", "selfrec", "mutual", "auxarrayself", "diamond", "uptrans", "crosstrans", "recdep", "recmap", "auxcase", "auxempty"}
AnonTargets == {"anonprop", "anonitems", "anonallof", "anonsibling", "anonimport", "anoncase", "anonbackup"}
SharedPtrTargets == {"sharedparam", "sharedresp"}

Str == Leaf("string")
Int == Leaf("integer")
ObjP(props) == Obj([properties |-> Mk(<<>>, props)])

\* body of the target definition, given its shape; "helper" is a local $ref usable inside the body
Body(s, helper) ==
  \* (patterns and enums ride along: the analyzer indexes them under the pointer of their owner, which Flatten moves)
  CASE s = "prim"     -> Mk([type |-> "string", format |-> "date", pattern |-> "0-9"], <<>>)
    [] s = "object"   -> ObjP([N_6 |-> Mk([type |-> "string", enum |-> <<"a", "b">>], <<>>)])
    [] s = "arrayref" -> Mk([type |-> "array"], [items |-> helper])
    [] s = "tuple"    -> Mk([type |-> "array"], [items |-> ListOf(<<Int, helper>>)])
    [] s = "allof"    -> Mk(<<>>, [allOf |-> ListOf(<<helper, ObjP([N_6 |-> Str])>>)])
    [] s = "map"      -> Obj([additionalProperties |-> ObjP([N_6 |-> Int])])
    [] s = "ref"      -> helper      \* the target is itself nothing but a $ref to a top-level definition
    \* a $ref under additionalItems beside a SINGLE items schema (not a tuple)
    [] s = "additemsref" -> Mk([type |-> "array"], [items |-> Int, additionalItems |-> helper])
    \* $ref-free (so it may collide by name) and yet with an anonymous complex schema inside
    [] s = "nestedfree" -> ObjP([N_6 |-> ObjP([N_13 |-> Str]), N_14 |-> Int])
    [] s = "nested"   -> ObjP([N_6 |-> ObjP([N_13 |-> Str]), N_14 |-> Mk([type |-> "array"], [items |-> ObjP([N_15 |-> helper])])])
    \* an array whose items are a further anonymous pointer, to the sibling property N_4 (only with target kind anonprop)
    [] s = "ptrarray" -> Mk([type |-> "array"], [items |-> RefTo(<<"root", "definitions", "N_1", "properties", "N_4">>)])

\* where the planted $ref points, and the documents that make it resolve
\* returns [ref |-> <<doc, tok...>>, docs |-> [docId -> definitions record], params, resps]
AuxDoc(defs) == [Skeleton EXCEPT !.ch = [definitions |-> Mk(<<>>, defs)] @@ @]

HelperIn(d) == RefTo(<<d, "definitions", "N_7">>)
HelperDef   == Mk([type |-> "integer", format |-> "int64"], <<>>)

TargetOf(t, s) ==
  CASE t = "local" -> [ref |-> <<"root", "definitions", "N_1">>,
                       rootdefs |-> [N_1 |-> Body(s, HelperIn("root")), N_7 |-> HelperDef], aux |-> <<>>, params |-> <<>>, resps |-> <<>>]
    [] t \in {"aux1", "aux2", "aux3"} ->
                      [ref |-> <<t, "definitions", "N_1">>, rootdefs |-> <<>>,
                       aux |-> (t :> AuxDoc([N_1 |-> Body(s, HelperIn(t)), N_7 |-> HelperDef])), params |-> <<>>, resps |-> <<>>]
    [] t = "trans" -> [ref |-> <<"aux1", "definitions", "N_1">>, rootdefs |-> <<>>,
                       aux |-> [aux1 |-> AuxDoc([N_1 |-> ObjP([N_3 |-> RefTo(<<"aux2", "definitions", "N_2">>)])]),
                                aux2 |-> AuxDoc([N_2 |-> Body(s, HelperIn("aux2")), N_7 |-> HelperDef])], params |-> <<>>, resps |-> <<>>]
    \* transitive import whose second hop goes UP the directory tree (aux2 is two levels below the root, aux1 one: "../a.json")
    [] t = "uptrans" -> [ref |-> <<"aux2", "definitions", "N_1">>, rootdefs |-> <<>>,
                       aux |-> [aux2 |-> AuxDoc([N_1 |-> ObjP([N_3 |-> RefTo(<<"aux1", "definitions", "N_2">>)])]),
                                aux1 |-> AuxDoc([N_2 |-> Body(s, HelperIn("aux1")), N_7 |-> HelperDef]),
                                \* a decoy nobody references: same file name as aux1, in aux2's own directory
                                aux4 |-> AuxDoc([N_2 |-> Mk([type |-> "boolean"], <<>>), N_7 |-> Mk([type |-> "boolean"], <<>>)])], params |-> <<>>, resps |-> <<>>]
    \* ... or across to another subtree (aux3 lives beside the root's directory: "../../common/root.json")
    [] t = "crosstrans" -> [ref |-> <<"aux1", "definitions", "N_1">>, rootdefs |-> <<>>,
                       aux |-> [aux1 |-> AuxDoc([N_1 |-> ObjP([N_3 |-> RefTo(<<"aux3", "definitions", "N_2">>)])]),
                                aux3 |-> AuxDoc([N_2 |-> Body(s, HelperIn("aux3")), N_7 |-> HelperDef]),
                                aux5 |-> AuxDoc([N_2 |-> Mk([type |-> "boolean"], <<>>), N_7 |-> Mk([type |-> "boolean"], <<>>)])], params |-> <<>>, resps |-> <<>>]
    [] t = "selfrec" -> [ref |-> <<"aux1", "definitions", "N_1">>, rootdefs |-> <<>>,
                       aux |-> [aux1 |-> AuxDoc([N_1 |-> ObjP([N_3 |-> RefTo(<<"aux1", "definitions", "N_1">>), N_4 |-> Body(s, HelperIn("aux1"))]),
                                                 N_7 |-> HelperDef])], params |-> <<>>, resps |-> <<>>]
    [] t = "mutual" -> [ref |-> <<"aux1", "definitions", "N_1">>, rootdefs |-> <<>>,
                       aux |-> [aux1 |-> AuxDoc([N_1 |-> ObjP([N_3 |-> RefTo(<<"aux1", "definitions", "N_2">>)]),
                                                 N_2 |-> ObjP([N_4 |-> RefTo(<<"aux1", "definitions", "N_1">>), N_5 |-> Body(s, HelperIn("aux1"))]),
                                                 N_7 |-> HelperDef])], params |-> <<>>, resps |-> <<>>]
    \* the imported definition N_1 is reached directly AND through another imported definition N_2 of the same document
    [] t = "diamond" -> [ref |-> <<"aux1", "definitions", "N_1">>, rootdefs |-> <<>>,
                       aux |-> [aux1 |-> AuxDoc([N_1 |-> Body(s, HelperIn("aux1")), N_2 |-> ObjP([N_3 |-> RefTo(<<"aux1", "definitions", "N_1">>), N_4 |-> Int]),
                                                 N_7 |-> HelperDef])], params |-> <<>>, resps |-> <<>>]
    \* a recursive imported definition N_2 that uses the imported definition N_1 twice (N_1 is the one that may collide by name):
    \* the recursion survives Expand, so the import, collision and de-duplication machinery runs in every mode
    [] t = "recdep" -> [ref |-> <<"aux1", "definitions", "N_2">>, rootdefs |-> <<>>,
                       \* (N_1 is also reached one import round later, through N_22)
                       aux |-> [aux1 |-> AuxDoc([N_2 |-> ObjP([N_3 |-> RefTo(<<"aux1", "definitions", "N_2">>), N_4 |-> RefTo(<<"aux1", "definitions", "N_1">>),
                                                               N_5 |-> RefTo(<<"aux1", "definitions", "N_1">>), N_23 |-> RefTo(<<"aux1", "definitions", "N_22">>)]),
                                                 N_22 |-> ObjP([N_24 |-> RefTo(<<"aux1", "definitions", "N_1">>)]),
                                                 N_1 |-> Body(s, HelperIn("aux1")), N_7 |-> HelperDef])], params |-> <<>>, resps |-> <<>>]
    \* a recursive imported definition that uses a map-of-itself definition of a third document: in Expand mode both recursions survive
    \* the expansion, and the third document is met under two spellings of its location
    [] t = "recmap" -> [ref |-> <<"aux1", "definitions", "N_1">>, rootdefs |-> <<>>,
                       aux |-> [aux1 |-> AuxDoc([N_1 |-> ObjP([N_3 |-> RefTo(<<"aux1", "definitions", "N_1">>), N_4 |-> RefTo(<<"aux3", "definitions", "N_2">>),
                                                               N_5 |-> Body(s, HelperIn("aux1"))]), N_7 |-> HelperDef]),
                                aux3 |-> AuxDoc([N_2 |-> Obj([additionalProperties |-> RefTo(<<"aux3", "definitions", "N_2">>)])])], params |-> <<>>, resps |-> <<>>]
    \* two definitions of one auxiliary document that differ by letter case only, both used (the second one by an extra path, see Assemble)
    [] t = "auxcase" -> [ref |-> <<"aux1", "definitions", "N_1">>, rootdefs |-> <<>>,
                       aux |-> [aux1 |-> AuxDoc([N_1 |-> Body(s, HelperIn("aux1")), C_1 |-> Mk([type |-> "boolean"], <<>>), N_7 |-> HelperDef])], params |-> <<>>, resps |-> <<>>]
    \* two definitions of one auxiliary document whose names both mangle to the EMPTY string (the harness spells them "{}" and "[]"):
    \* each import falls back on the placeholder name, which must be made unique like any other
    [] t = "auxempty" -> [ref |-> <<"aux1", "definitions", "N_1">>, rootdefs |-> <<>>,
                       aux |-> [aux1 |-> AuxDoc([N_1 |-> Body(s, HelperIn("aux1")), N_25 |-> Mk([type |-> "boolean"], <<>>), N_7 |-> HelperDef])], params |-> <<>>, resps |-> <<>>]
    [] t = "arrayself" -> [ref |-> <<"root", "definitions", "N_1">>,
                       rootdefs |-> [N_1 |-> Mk([type |-> "array"], [items |-> RefTo(<<"root", "definitions", "N_1">>)])],
                       aux |-> <<>>, params |-> <<>>, resps |-> <<>>]
    [] t = "mapself" -> [ref |-> <<"root", "definitions", "N_1">>,
                       rootdefs |-> [N_1 |-> Obj([additionalProperties |-> RefTo(<<"root", "definitions", "N_1">>)])],
                       aux |-> <<>>, params |-> <<>>, resps |-> <<>>]
    [] t = "auxarrayself" -> [ref |-> <<"aux2", "definitions", "N_1">>, rootdefs |-> <<>>,
                       aux |-> [aux2 |-> AuxDoc([N_1 |-> Mk([type |-> "array"], [items |-> RefTo(<<"aux2", "definitions", "N_1">>)])])],
                       params |-> <<>>, resps |-> <<>>]
    [] t = "anonprop" -> [ref |-> <<"root", "definitions", "N_1", "properties", "N_3">>,
                       rootdefs |-> [N_1 |-> ObjP([N_3 |-> Body(s, HelperIn("root")), N_4 |-> Int]), N_7 |-> HelperDef],
                       aux |-> <<>>, params |-> <<>>, resps |-> <<>>]
    \* the pointer's target N_3 has a COMPLEX sibling N_4 (the harness may spell N_3 as N_4's name + a suffix: keys that are string prefixes)
    [] t = "anonsibling" -> [ref |-> <<"root", "definitions", "N_1", "properties", "N_3">>,
                       rootdefs |-> [N_1 |-> ObjP([N_3 |-> Body(s, HelperIn("root")), N_4 |-> ObjP([N_19 |-> Str])]), N_7 |-> HelperDef],
                       aux |-> <<>>, params |-> <<>>, resps |-> <<>>]
    \* the pointer's target is itself the $ref to an imported definition whose name is already taken in the root (N_2): the pointer
    \* becomes a direct referrer of the deduplicated definition while pointers are resolved
    [] t = "anonimport" -> [ref |-> <<"root", "definitions", "N_1", "properties", "N_3">>,
                       rootdefs |-> [N_1 |-> ObjP([N_3 |-> RefTo(<<"aux1", "definitions", "N_2">>), N_4 |-> Int]),
                                     N_2 |-> Mk([type |-> "integer", format |-> "int32"], <<>>)],
                       aux |-> [aux1 |-> AuxDoc([N_2 |-> Body(s, HelperIn("aux1")), N_7 |-> HelperDef])], params |-> <<>>, resps |-> <<>>]
    \* two pointers (the second one from an extra path, see Assemble) to sibling properties spelled alike up to case: the names generated
    \* for the two targets collide, whichever is named first
    [] t = "anoncase" -> [ref |-> <<"root", "definitions", "N_1", "properties", "N_3">>,
                       rootdefs |-> [N_1 |-> ObjP([N_3 |-> Body(s, HelperIn("root")), C_3 |-> ObjP([N_19 |-> Str])]), N_7 |-> HelperDef],
                       aux |-> <<>>, params |-> <<>>, resps |-> <<>>]
    \* the target has a SIBLING that points to it, and whose name extends the target's (address / addressBackup: the harness spells N_26 so)
    [] t = "anonbackup" -> [ref |-> <<"root", "definitions", "N_1", "properties", "N_3">>,
                       rootdefs |-> [N_1 |-> ObjP([N_3 |-> Body(s, HelperIn("root")), N_26 |-> RefTo(<<"root", "definitions", "N_1", "properties", "N_3">>), N_4 |-> Int]),
                                     N_7 |-> HelperDef],
                       aux |-> <<>>, params |-> <<>>, resps |-> <<>>]
    [] t = "anonitems" -> [ref |-> <<"root", "definitions", "N_1", "items">>,
                       rootdefs |-> [N_1 |-> Mk([type |-> "array"], [items |-> Body(s, HelperIn("root"))]), N_7 |-> HelperDef],
                       aux |-> <<>>, params |-> <<>>, resps |-> <<>>]
    [] t = "anonallof" -> [ref |-> <<"root", "definitions", "N_1", "allOf", "1">>,
                       rootdefs |-> [N_1 |-> Mk(<<>>, [allOf |-> ListOf(<<ObjP([N_4 |-> Int]), Body(s, HelperIn("root"))>>)]), N_7 |-> HelperDef],
                       aux |-> <<>>, params |-> <<>>, resps |-> <<>>]
    [] t = "sharedparam" -> [ref |-> <<"root", "parameters", "N_5", "schema">>, rootdefs |-> [N_7 |-> HelperDef], aux |-> <<>>,
                       params |-> [N_5 |-> BodyParam(Body(s, HelperIn("root")))], resps |-> <<>>]
    [] t = "sharedresp" -> [ref |-> <<"root", "responses", "N_5", "schema">>, rootdefs |-> [N_7 |-> HelperDef], aux |-> <<>>,
                       params |-> <<>>, resps |-> [N_5 |-> Resp([schema |-> Body(s, HelperIn("root"))])]]

\* the holder: contributes root definitions, shared objects and a path item, all holding REF
OpId(id, ch) == Mk([operationId |-> id], ch)
UseDef(n) == OpId("usedef", [responses |-> Mk(<<>>, ("200" :> Resp([schema |-> RefTo(<<"root", "definitions", n>>)])))])

\* holders that live in the auxiliary document aux1 (shared objects of another file): REF must be local to aux1
AuxHolderDoc(h, REF) ==
  CASE h = "auxresp"     -> [responses |-> Mk(<<>>, [N_20 |-> Resp([schema |-> REF])])]
    [] h = "auxparam"    -> [parameters |-> Mk(<<>>, [N_20 |-> BodyParam(REF)])]
    [] h = "auxpathitem" -> [paths |-> Mk(<<>>, [P_9 |-> PathItemWith([get |-> OpId("remote", [responses |-> Mk(<<>>, ("200" :> Resp([schema |-> REF])))])])])]
    [] OTHER -> <<>>
AuxHolderRoot(h) ==
  CASE h = "auxresp"     -> PathItemWith([get |-> Op([responses |-> Mk(<<>>, ("200" :> RefTo(<<"aux1", "responses", "N_20">>)))])])
    [] h = "auxparam"    -> PathItemWith([post |-> Op([parameters |-> ListOf(<<RefTo(<<"aux1", "parameters", "N_20">>)>>), responses |-> OkResponses])])
    [] h = "auxpathitem" -> RefTo(<<"aux1", "paths", "P_9">>)

Holder(h, REF) ==
  LET inDef(body) == [defs |-> [N_8 |-> body], params |-> <<>>, resps |-> <<>>,
                      path |-> PathItemWith([get |-> UseDef("N_8")])]
      inOp(pi)    == [defs |-> <<>>, params |-> <<>>, resps |-> <<>>, path |-> pi]
  IN
  CASE h = "prop"     -> inDef(ObjP([N_9 |-> REF, N_10 |-> Str]))
    [] h = "items"    -> inDef(Mk([type |-> "array"], [items |-> REF]))
    [] h = "tuple"    -> inDef(Mk([type |-> "array"], [items |-> ListOf(<<Int, REF>>)]))
    [] h = "addprops" -> inDef(Obj([additionalProperties |-> REF]))
    [] h = "additems" -> inDef(Mk([type |-> "array"], [items |-> ListOf(<<Int>>), additionalItems |-> REF]))
    [] h = "allof"    -> inDef(Mk(<<>>, [allOf |-> ListOf(<<REF, ObjP([N_10 |-> Str])>>)]))
    [] h = "alias"    -> inDef(REF)
    [] h = "additems1" -> inDef(Mk([type |-> "array"], [items |-> Int, additionalItems |-> REF]))
    \* a $ref with schema-bearing siblings: the $ref below the sibling is the ONLY reference to its target (JSON-reference semantics ignore
    \* the siblings, the document still holds them and what they refer to)
    [] h = "refsib"   -> [defs |-> [N_8 |-> Mk(("$ref" :> <<"root", "definitions", "N_21">>), [properties |-> Mk(<<>>, [N_9 |-> REF])]), N_21 |-> ObjP([N_10 |-> Str])],
                           params |-> <<>>, resps |-> <<>>, path |-> PathItemWith([get |-> UseDef("N_8")])]
    \* the keywords Swagger 2 does not use but the schema model carries (each is a different container type in replace.go)
    [] h = "patprop"  -> inDef(Obj([patternProperties |-> Mk(<<>>, [N_9 |-> REF])]))
    [] h = "anyof"    -> inDef(Mk(<<>>, [anyOf |-> ListOf(<<Str, REF>>)]))
    [] h = "oneof"    -> inDef(Mk(<<>>, [oneOf |-> ListOf(<<REF>>)]))
    [] h = "not"      -> inDef(Mk([type |-> "object"], [not |-> REF]))
    [] h = "nesteddefs" -> inDef(Obj([definitions |-> Mk(<<>>, [N_9 |-> REF]), properties |-> Mk(<<>>, [N_10 |-> Str])]))
    [] h = "nested"   -> inDef(ObjP([N_9 |-> ObjP([N_11 |-> REF, N_10 |-> Int])]))
    \* two inline complex schemas at the same depth whose property names differ by letter case only (C_9 is the case variant of N_9)
    [] h = "casesiblings" -> inDef(ObjP([N_9 |-> ObjP([N_11 |-> REF]), C_9 |-> ObjP([N_10 |-> Str])]))
    [] h = "opbody"   -> inOp(PathItemWith([post |-> Op([parameters |-> ListOf(<<BodyParam(REF)>>), responses |-> OkResponses])]))
    [] h = "pathbody" -> inOp(PathItemWith([parameters |-> ListOf(<<BodyParam(REF)>>), put |-> Op([responses |-> OkResponses])]))
    \* an INLINE complex schema in a path-level body parameter, under a path whose string is a prefix of another path's (X_1 = P_1 + suffix,
    \* bound by the harness) with operations of the same methods: full flattening names the schema once per operation it attributes to the path
    [] h = "pathbodyinline" -> inOp(PathItemWith([parameters |-> ListOf(<<BodyParam(ObjP([N_9 |-> REF, N_10 |-> Str]))>>),
                                                  put |-> OpId("putone", [responses |-> OkResponses]), post |-> OpId("postone", [responses |-> OkResponses])]))
    [] h = "code"     -> inOp(PathItemWith([get |-> Op([responses |-> Mk(<<>>, ("200" :> Resp([schema |-> REF])))])]))
    [] h = "default"  -> inOp(PathItemWith([delete |-> Op([responses |-> Mk(<<>>, [default |-> Resp([schema |-> REF])])])]))
    [] h = "opnested" -> inOp(PathItemWith([patch |-> Op([responses |-> Mk(<<>>, ("201" :> Resp([schema |-> ObjP([N_9 |-> REF, N_10 |-> Str])])))])]))
    \* inline complex schemas under status codes that net/http has no text for (and a 3-digit code above 599)
    [] h = "oddcode"  -> inOp(PathItemWith([get |-> Op([responses |-> Mk(<<>>, ("299" :> Resp([schema |-> ObjP([N_9 |-> REF, N_10 |-> Str])]) @@
                                                                                 "520" :> Resp([schema |-> Mk([type |-> "array"], [items |-> ObjP([N_11 |-> REF])])]) @@
                                                                                 "200" :> Resp([schema |-> REF])))])]))
    \* operations that share one operationId (not valid Swagger, but loadable and in W), with inline complex schemas whose generated
    \* names derive from that id: GET P_1 / POST P_5 share "dup", POST P_1 / GET P_5 share "dup2" (P_5: see Assemble), so that method
    \* order and path order disagree for one of the pairs however the paths are spelled
    [] h = "dupids"   -> inOp(PathItemWith([get  |-> OpId("dup", [responses |-> Mk(<<>>, ("200" :> Resp([schema |-> ObjP([N_9 |-> REF, N_10 |-> Str])])))]),
                                            post |-> OpId("dup2", [parameters |-> ListOf(<<BodyParam(ObjP([N_11 |-> REF]))>>), responses |-> OkResponses])]))
    [] h = "opitems"  -> inOp(PathItemWith([head |-> Op([responses |-> Mk(<<>>, ("200" :> Resp([schema |-> Mk([type |-> "array"], [items |-> REF])])))])]))
    [] h \in AuxHolders -> [defs |-> <<>>, params |-> <<>>, resps |-> <<>>, path |-> AuxHolderRoot(h)]
    \* shared objects that no operation uses (they disappear with RemoveUnused, and so must what only they refer to)
    [] h = "unusedparam" -> [defs |-> <<>>, params |-> [N_12 |-> BodyParam(REF)], resps |-> <<>>,
                             path |-> PathItemWith([get |-> Op([responses |-> OkResponses])])]
    [] h = "unusedresp"  -> [defs |-> <<>>, params |-> <<>>, resps |-> [N_12 |-> Resp([schema |-> REF])],
                             path |-> PathItemWith([get |-> Op([responses |-> OkResponses])])]
    \* an alias definition that nothing refers to, beside a user of the same target: after a name collision the alias becomes
    \* the home of the imported schema (stripOAIGen) and every other holder is re-pointed to it
    \* a definition nothing refers to, holding an anonymous complex schema: full flattening names it, RemoveUnused must then remove both
    [] h = "unuseddef" -> [defs |-> [N_8 |-> ObjP([N_9 |-> ObjP([N_11 |-> REF, N_10 |-> Str])])], params |-> <<>>, resps |-> <<>>,
                           path |-> PathItemWith([get |-> Op([responses |-> OkResponses])])]
    [] h = "unusedalias" -> [defs |-> [N_8 |-> REF], params |-> <<>>, resps |-> <<>>,
                             path |-> PathItemWith([get |-> Op([responses |-> Mk(<<>>, ("200" :> Resp([schema |-> REF])))])])]
    [] h = "sharedparam" -> [defs |-> <<>>, params |-> [N_12 |-> BodyParam(REF)], resps |-> <<>>,
                             path |-> PathItemWith([post |-> Op([parameters |-> ListOf(<<RefTo(<<"root", "parameters", "N_12">>)>>), responses |-> OkResponses])])]
    [] h = "sharedresp"  -> [defs |-> <<>>, params |-> <<>>, resps |-> [N_12 |-> Resp([schema |-> REF])],
                             path |-> PathItemWith([options |-> Op([responses |-> Mk(<<>>, ("404" :> RefTo(<<"root", "responses", "N_12">>)))])])]

Second(h2, REF) ==
  CASE h2 = "none"  -> [defs |-> <<>>, path |-> <<>>]
    [] h2 = "code"  -> [defs |-> <<>>, path |-> ("P_2" :> PathItemWith([get |-> OpId("second", [responses |-> Mk(<<>>, ("200" :> Resp([schema |-> REF])))])]))]
    [] h2 = "prop2" -> [defs |-> [N_16 |-> ObjP([N_17 |-> REF])],
                        path |-> ("P_2" :> PathItemWith([get |-> Mk([operationId |-> "second"], [responses |-> Mk(<<>>, ("200" :> Resp([schema |-> RefTo(<<"root", "definitions", "N_16">>)])))])]))]
    \* two more holders (three referrers in all)
    [] h2 = "codes2" -> [defs |-> <<>>, path |-> ("P_2" :> PathItemWith([get |-> OpId("second", [responses |-> Mk(<<>>, ("200" :> Resp([schema |-> REF])))])]))
                                                  @@ ("P_6" :> PathItemWith([get |-> OpId("sixth", [responses |-> Mk(<<>>, ("200" :> Resp([schema |-> REF])))])]))]
    [] h2 = "same"  -> [defs |-> <<>>, path |-> ("P_2" :> PathItemWith([post |-> Mk([operationId |-> "second"], [parameters |-> ListOf(<<BodyParam(REF)>>), responses |-> OkResponses])]))]

\* name collisions between an imported definition (N_1 of an auxiliary document) and the root
Collide(c, t) ==
  CASE c = "none"  -> [defs |-> <<>>, aux |-> <<>>, path |-> <<>>]
    [] c = "exact" -> [defs |-> [N_1 |-> Mk([type |-> "integer", format |-> "int32"], <<>>)], aux |-> <<>>,
                       path |-> ("P_3" :> PathItemWith([get |-> Mk([operationId |-> "third"], [responses |-> Mk(<<>>, ("200" :> Resp([schema |-> RefTo(<<"root", "definitions", "N_1">>)])))])]))]
    [] c = "case"  -> [defs |-> [C_1 |-> Mk([type |-> "integer", format |-> "int32"], <<>>)], aux |-> <<>>,
                       path |-> ("P_3" :> PathItemWith([get |-> Mk([operationId |-> "third"], [responses |-> Mk(<<>>, ("200" :> Resp([schema |-> RefTo(<<"root", "definitions", "C_1">>)])))])]))]
    [] c = "twoimports" -> [defs |-> <<>>, aux |-> [aux3 |-> AuxDoc([N_1 |-> ObjP([N_18 |-> Int])])],
                       path |-> ("P_3" :> PathItemWith([get |-> Mk([operationId |-> "third"], [responses |-> Mk(<<>>, ("200" :> Resp([schema |-> RefTo(<<"aux3", "definitions", "N_1">>)])))])]))]
    \* the root already owns TWO definitions, spelled alike up to letter case, under the name full flattening generates for the inline
    \* schema of holder "nested" (G_1 = the generated name of definitions/N_8/properties/N_9, G_2 = its case variant; bound by the harness)
    [] c = "gennames" -> [defs |-> [G_1 |-> Mk([type |-> "integer", format |-> "int32"], <<>>), G_2 |-> Mk([type |-> "string"], <<>>)], aux |-> <<>>,
                       path |-> ("P_3" :> PathItemWith([get |-> Mk([operationId |-> "third"], [responses |-> Mk(<<>>, ("200" :> Resp([schema |-> RefTo(<<"root", "definitions", "G_1">>)]) @@
                                                                                                                             "201" :> Resp([schema |-> RefTo(<<"root", "definitions", "G_2">>)])))])]))]
    \* the same for the allOf member of holder "allof" (G_3 = the generated name of definitions/N_8/allOf/1, G_4 = its case variant):
    \* members of lists are addressed in place by the namer
    [] c = "gennames2" -> [defs |-> [G_3 |-> Mk([type |-> "integer", format |-> "int32"], <<>>), G_4 |-> Mk([type |-> "string"], <<>>)], aux |-> <<>>,
                       path |-> ("P_3" :> PathItemWith([get |-> Mk([operationId |-> "third"], [responses |-> Mk(<<>>, ("200" :> Resp([schema |-> RefTo(<<"root", "definitions", "G_3">>)]) @@
                                                                                                                             "201" :> Resp([schema |-> RefTo(<<"root", "definitions", "G_4">>)])))])]))]

Op2(at, ch) == Mk(at, ch)

\* W: imported definitions may collide only when the imported definition is itself $ref-free
RefFreeShape(s) == s \in {"prim", "object", "map", "nestedfree"}
ValidCombo(t, s, h, h2, c) ==
  /\ (t \in {"arrayself", "mapself", "auxarrayself"} => s = "prim")           \* the shape is fixed by the kind
  /\ (c # "none" => t \in {"aux1", "aux2", "diamond", "recdep"} /\ RefFreeShape(s))
  /\ (c = "twoimports" => t # "aux3")
  /\ (t = "anonimport" => RefFreeShape(s) /\ c = "none")
  /\ (s = "additemsref" => t \in {"aux1", "local", "selfrec"} /\ h2 \in {"none", "code"})
  /\ (s = "nestedfree" => t = "aux1" /\ h \in {"prop", "alias", "code", "opitems", "unusedalias"})
  /\ (h2 = "codes2" => c # "none" /\ h \in {"prop", "code", "nested", "opbody"})
  /\ (h \in {"refsib", "unuseddef", "additems1"} => t \in {"aux1", "local", "anonprop"} /\ h2 \in {"none", "code"})
  /\ (t = "anoncase" => s \in {"object", "allof", "nested"} /\ h \in {"prop", "code", "opbody", "items"} /\ c = "none")
  /\ (t = "anonbackup" => s \in {"prim", "object", "arrayref"} /\ h \in {"prop", "code", "opbody", "unusedresp"} /\ c = "none")
  /\ (t = "auxempty" => s \in {"prim", "object"} /\ h \in {"prop", "code", "opbody"} /\ c = "none")
  /\ (t = "auxcase" => s \in {"prim", "object"} /\ h \in {"prop", "code", "opbody", "alias"} /\ c = "none")
  /\ (c = "gennames" => h = "nested" /\ t \in {"aux1", "diamond"})
  /\ (c = "gennames2" => h = "allof" /\ t \in {"aux1", "diamond"})
  /\ (c # "none" /\ t = "diamond" => RefFreeShape(s))
  /\ (s = "ptrarray" <=> FALSE) \/ (s = "ptrarray" /\ t = "anonprop")
  /\ (h \in AuxHolders => t \in {"aux1", "selfrec", "mutual", "diamond"} /\ h2 \in {"none", "code"} /\ c = "none")

Assemble(t, s, h, h2, c) ==
  LET T  == TargetOf(t, s)
      R  == RefTo(T.ref)
      H  == Holder(h, R)
      S2 == Second(h2, R)
      C  == Collide(c, t)
      defs   == C.defs @@ T.rootdefs @@ H.defs @@ S2.defs
      params == T.params @@ H.params
      resps  == T.resps @@ H.resps
      dia    == IF t = "diamond"
                THEN ("P_4" :> PathItemWith([get |-> OpId("fourth", [responses |-> Mk(<<>>, ("200" :> Resp([schema |-> RefTo(<<"aux1", "definitions", "N_2">>)])))])]))
                ELSE <<>>
      xp     == IF h = "pathbodyinline"
                THEN ("X_1" :> PathItemWith([put |-> OpId("puttwo", [responses |-> OkResponses]), post |-> OpId("posttwo", [responses |-> OkResponses]),
                                             get |-> OpId("gettwo", [responses |-> OkResponses])]))
                ELSE IF h = "dupids"
                THEN ("P_5" :> PathItemWith([get  |-> OpId("dup2", [responses |-> Mk(<<>>, ("200" :> Resp([schema |-> ObjP([N_12 |-> Int])])))]),
                                             post |-> OpId("dup", [parameters |-> ListOf(<<BodyParam(ObjP([N_13 |-> Str]))>>), responses |-> OkResponses])]))
                ELSE <<>>
      cas    == IF t = "auxcase"
                THEN ("P_7" :> PathItemWith([get |-> OpId("seventh", [responses |-> Mk(<<>>, ("200" :> Resp([schema |-> RefTo(<<"aux1", "definitions", "C_1">>)])))])]))
                ELSE <<>>
      emp    == IF t = "auxempty"
                THEN ("P_9e" :> PathItemWith([get |-> OpId("ninth", [responses |-> Mk(<<>>, ("200" :> Resp([schema |-> RefTo(<<"aux1", "definitions", "N_25">>)])))])]))
                ELSE <<>>
      acs    == IF t = "anoncase"
                THEN ("P_8" :> PathItemWith([get |-> OpId("eighth", [responses |-> Mk(<<>>, ("200" :> Resp([schema |-> RefTo(<<"root", "definitions", "N_1", "properties", "C_3">>)])))])]))
                ELSE <<>>
      paths  == ("P_1" :> H.path) @@ S2.path @@ C.path @@ dia @@ xp @@ cas @@ acs @@ emp
      extra  == (IF DOMAIN params = {} THEN <<>> ELSE [parameters |-> Mk(<<>>, params)]) @@
                (IF DOMAIN resps = {} THEN <<>> ELSE [responses |-> Mk(<<>>, resps)])
      \* a root without any definition has no "definitions" section at all (the code then starts from a nil map)
      dsec   == IF DOMAIN defs = {} THEN <<>> ELSE [definitions |-> Mk(<<>>, defs)]
      root   == [Skeleton EXCEPT !.ch = ([paths |-> Mk(<<>>, paths)] @@ dsec @@ extra) @@ @]
      auxs   == C.aux @@ T.aux
      auxs2  == IF h \in AuxHolders
                THEN [d \in DOMAIN auxs |-> IF d = "aux1" THEN [auxs[d] EXCEPT !.ch = AuxHolderDoc(h, R) @@ @] ELSE auxs[d]]
                ELSE auxs
  IN ("root" :> root) @@ auxs2

Cyclic(t) == t \in {"selfrec", "mutual", "arrayself", "mapself", "auxarrayself", "recdep", "recmap"}
=============================================================================
