------------------------------- MODULE Dedup --------------------------------
(***************************************************************************)
(* L2, continued: name collisions on import and their resolution           *)
(* (flattenContext.newRefs, importNewRef, the end-of-round bookkeeping of  *)
(* importExternalReferences, updateRefParents, stripOAIGen /               *)
(* stripOAIGenForRef, and the loop of stripPointersAndOAIGen).             *)
(*                                                                         *)
(* The context is a function  key -> entry  where a key is a JSON pointer  *)
(* as a token sequence (a holder location, or <<"definitions", name>>):    *)
(*   name, path   the definition the entry speaks about (after the         *)
(*                end-of-round renaming: holder entries point to           *)
(*                themselves, definition entries are keyed by their path)  *)
(*   oai, res     isOAIGen / resolved                                      *)
(*   sch          the schema kept for re-inlining                          *)
(*   par          parents: holders of a $ref to path (a set: the code      *)
(*                sorts them before use)                                   *)
(* Go ranges over this map in an unspecified order: the strip round is a   *)
(* nondeterministic choice among the pending keys, and so is the choice    *)
(* among parents of equal depth (the code breaks those ties by string      *)
(* order, which the abstraction does not have).                            *)
(*                                                                         *)
(* Simplifications (stated, and visible as model drift if they matter):    *)
(*  - names generated for inline schemas never collide (their entries      *)
(*    have oai = FALSE and are inert, so they are not tracked);            *)
(*  - the schema re-inlined is the current content of the definition       *)
(*    (the code keeps a shallow copy whose inner maps are shared);         *)
(*  - a deduplicated name is n \o "OAIGen" (no numeric suffix needed in    *)
(*    the explored family).                                                *)
(***************************************************************************)
EXTENDS Flatten

Ent(name, path, oai, res, sch, par) == [name |-> name, path |-> path, oai |-> oai, res |-> res, sch |-> sch, par |-> par]
Carry(nr, k) == IF k \in DOMAIN nr THEN nr[k].res ELSE FALSE
IsTopDefKey(k) == Len(k) = 2 /\ k[1] = "definitions"
HolderKeys(doc, path) == { x[1] : x \in { y \in RefsIn(doc) : y[2] = <<"root">> \o path } }

\* ---- names ------------------------------------------------------------------------------------------
\* strings.EqualFold on the names of the family: equal, or one of the declared case pairs
CasePairs == { <<"N_1", "C_1">>, <<"C_1", "N_1">>, <<"N_9", "C_9">>, <<"C_9", "N_9">> }
FoldEq(a, b) == a = b \/ <<a, b>> \in CasePairs
Collides(doc, n) == \E d \in Defs(doc) : FoldEq(d, n)
OAIName(n) == n \o "OAIGen"
HasGen(k, gen) == \E i \in DOMAIN k : k[i] \in gen          \* strings.Contains(key, "OAIGen")

\* importExternalReferences sorts the remote $refs of a round by their normalized string, i.e. by file location first: the rank of the
\* documents of the family under the layout the harness gives them (api/sub/a.json < api/sub/common/root.json < api/sub/deep/a.json <
\* api/sub/deep/b.json < common/root.json); within one document the order of the fragments is left open
DocRank(d) == CASE d = "aux1" -> 1 [] d = "aux5" -> 2 [] d = "aux4" -> 3 [] d = "aux2" -> 4 [] d = "aux3" -> 5 [] OTHER -> 6
NextImports(todo) == { t \in todo : \A u \in todo : DocRank(t[1]) <= DocRank(u[1]) }

\* ---- importNewRef for one remote target (st = [doc, nr, gen, known, rwc, err]) ---------------------------
ImportOne(b0, st, t) ==
  LET keys == HoldersOf(st.doc, t) IN
  IF t \in DOMAIN st.known
  THEN [st EXCEPT !.doc = ImportKnown(st.doc, st.known[t], keys)]
  ELSE LET n    == Last(t)
           coll == Collides(st.doc, n)
           nm   == IF coll THEN OAIName(n) ELSE n
           sch  == IF Valid(b0, t) THEN NodeAt(b0, t) ELSE Empty
       IN [st EXCEPT !.doc   = ImportNew(b0, st.doc, t, nm, keys),
                     !.nr    = [k \in keys |-> Ent(nm, DefPath(nm), coll, Carry(st.nr, k), sch, {})] @@ st.nr,
                     !.gen   = IF coll THEN @ \cup {nm} ELSE @,
                     !.known = (t :> nm) @@ @,
                     !.err   = @ \/ ~Valid(b0, t)]

\* importNewRef with the name the code logged (conformance: the context is rebuilt from the events)
ImportLogged(b0, st, t, nm, keys, oai) ==
  LET sch == IF Valid(b0, t) THEN NodeAt(b0, t) ELSE Empty
  IN [st EXCEPT !.doc   = ImportNew(b0, st.doc, t, nm, keys),
                !.nr    = [k \in keys |-> Ent(nm, DefPath(nm), oai, Carry(st.nr, k), sch, {})] @@ st.nr,
                !.gen   = IF oai THEN @ \cup {nm} ELSE @,
                !.known = (t :> nm) @@ @]

\* ---- end of an import round: entries are re-keyed by the definition they created, and the holder entries now speak about themselves
EndRound(st) ==
  LET nr    == st.nr
      moved == { k \in DOMAIN nr : nr[k].path # k }
      defE  == [p \in { nr[k].path : k \in moved } |-> LET k == CHOOSE x \in moved : nr[x].path = p IN nr[k]]
      holdE == [k \in moved |-> Ent(Last(k), k, HasGen(k, st.gen), nr[k].res, RefToDef(nr[k].name), nr[k].par)]
  IN [st EXCEPT !.nr = holdE @@ defE @@ nr]

\* ---- stripOAIGen, first half: updateRefParents over the analyzer's reference index ------------------------------
UpdateParents(st) ==
  [st EXCEPT !.nr = [k \in DOMAIN st.nr |-> IF st.nr[k].oai /\ ~st.nr[k].res
                                             THEN [st.nr[k] EXCEPT !.par = st.nr[k].par \cup HolderKeys(st.doc, st.nr[k].path)]
                                             ELSE st.nr[k]]]

SelfParent(r) == \E p \in r.par : IsPrefixOf(r.path, p)
Strippable(st, k) == k \in DOMAIN st.nr /\ st.nr[k].oai /\ st.nr[k].par # {} /\ ~SelfParent(st.nr[k])
\* sortref.TopmostFirst: fewer segments first, then string order: the sections compare as their names do (definitions < parameters <
\* paths < responses); ties inside one section are left open (names are abstract)
SecRank(k) == CASE k[1] = "definitions" -> 1 [] k[1] = "parameters" -> 2 [] k[1] = "paths" -> 3 [] k[1] = "responses" -> 4 [] OTHER -> 5
Before(p, q) == Len(p) < Len(q) \/ (Len(p) = Len(q) /\ SecRank(p) <= SecRank(q))
Topmost(par) == { p \in par : \A q \in par : Before(p, q) }
\* the remaining ties depend on how the names compare as strings: a property of the INPUT, fixed during a run.  flip selects one of two
\* such orders (TLC's CHOOSE is a fixed function of the set), so that both are explored
Elect(par, flip) ==
  LET T == Topmost(par)  c == CHOOSE f \in T : TRUE
  IN IF flip /\ T # {c} THEN CHOOSE f \in T \ {c} : TRUE ELSE c

Reparent(p, old, new) == IF IsPrefixOf(old, p) THEN new \o SubSeq(p, Len(old) + 1, Len(p)) ELSE p
RECURSIVE PointSet(_, _, _)
PointSet(doc, ps, r) == IF ps = {} THEN doc ELSE LET p == CHOOSE x \in ps : TRUE IN PointSet(SetRefAt(doc, p, r), ps \ {p}, r)
ComplexAt(doc, key) ==
  LET f == ClassifyAt(("root" :> doc), <<"root">> \o key, {"date", "date-time", "uuid", "email"}) IN IsComplexFlags(f)

\* ---- stripOAIGenForRef(k) with `first` the parent elected to receive the schema --------------------------------
StripFor(st, k, first) ==
  LET r      == st.nr[k]
      sch    == IF Has(st.doc, r.path) THEN At(st.doc, r.path) ELSE r.sch
      others == r.par \ {first}
      bad    == ~Has(st.doc, first) \/ \E p \in others : ~Has(st.doc, p)        \* the code returns an error there
      d1     == IF Has(st.doc, first) THEN SetAt(st.doc, first, sch) ELSE st.doc
      d2     == PointSet(d1, others, <<"root">> \o first)
      d3a    == IF "definitions" \in DOMAIN d2.ch /\ Last(r.path) \in DOMAIN d2.ch["definitions"].ch THEN DelAt(d2, <<"definitions", Last(r.path)>>) ELSE d2
      moved  == { x \in RefsIn(d3a) : IsPrefixOf(<<"root">> \o r.path, x[2]) /\ Len(x[2]) > Len(r.path) + 1 }
      d3     == RebaseInto(d3a, <<"root">> \o r.path, <<"root">> \o first)
      touched == { p \in r.par : p \in DOMAIN st.nr /\ st.nr[p].oai }
      nr1    == [kk \in DOMAIN st.nr |->
                   IF kk = k THEN [st.nr[kk] EXCEPT !.oai = FALSE, !.res = TRUE]
                   ELSE LET v0 == st.nr[kk]
                            v1 == IF kk \in touched THEN [v0 EXCEPT !.sch = sch, !.res = FALSE] ELSE v0
                        IN IF v1.oai /\ ~v1.res THEN [v1 EXCEPT !.par = { Reparent(p, r.path, first) : p \in @ }] ELSE v1]
      rwc1   == \/ touched # {}
                \/ (others # {} /\ ~IsTopDefKey(first))
                \/ moved # {}
                \/ (~HasRef(sch) /\ ~IsTopDefKey(first) /\ Has(d1, first) /\ ComplexAt(d1, first))
  IN [st EXCEPT !.doc = d3, !.nr = nr1, !.rwc = @ \/ rwc1, !.err = @ \/ bad]

\* ---- deterministic composition (an arbitrary but fixed order), used to state that the order does not matter --------------
RECURSIVE StripRoundDet(_, _, _)
StripRoundDet(st, pend, flip) ==
  IF pend = {} \/ st.err THEN st
  ELSE LET k == CHOOSE x \in pend : TRUE IN
       IF Strippable(st, k) THEN StripRoundDet(StripFor(st, k, Elect(st.nr[k].par, flip)), pend \ {k}, flip)
       ELSE StripRoundDet(st, pend \ {k}, flip)
RECURSIVE ImportRoundsDet(_, _, _)
ImportRoundsDet(b0, st, fuel) ==
  LET R == RemoteTargets(st.doc) IN
  IF R = {} \/ fuel = 0 THEN st
  ELSE LET RECURSIVE one(_, _)
           one(s, todo) == IF todo = {} THEN s ELSE LET t == CHOOSE x \in NextImports(todo) : TRUE IN one(ImportOne(b0, s, t), todo \ {t})
       IN ImportRoundsDet(b0, EndRound(one(st, R)), fuel - 1)
RECURSIVE StripLoopDet(_, _, _, _)
StripLoopDet(st, mode, fuel, flip) ==
  LET s1 == [st EXCEPT !.doc = PointerLoop(@, 32)]
      s2 == UpdateParents([s1 EXCEPT !.rwc = FALSE])
      s3 == StripRoundDet(s2, DOMAIN s2.nr, flip)
  IN IF ~s3.rwc \/ s3.err \/ fuel = 0 THEN s3
     ELSE StripLoopDet([s3 EXCEPT !.doc = IF mode = "full" THEN NameLoop(@, 32) ELSE @], mode, fuel - 1, flip)
St0(doc) == [doc |-> doc, nr |-> <<>>, gen |-> {}, known |-> <<>>, rwc |-> FALSE, err |-> FALSE]
FlattenDedupDet(b0, mode, ru, flip) ==
  LET s4 == ImportRoundsDet(b0, St0(Phase3(Phase1(b0, mode), ru)), 8)
      s5 == [s4 EXCEPT !.doc = Phase5(@, mode)]
      s6 == StripLoopDet(s5, mode, 6, flip)
  IN [s6 EXCEPT !.doc = Phase7(@, ru)]
=============================================================================
