------------------------------ MODULE Classify ------------------------------
(***************************************************************************)
(* C20: the schema classification of schema.go, transcribed on attributed  *)
(* trees.  Classify(b, pos, visited) returns the eleven exported flags     *)
(* plus "cyc": TRUE when the computation of a "simple" flag met a $ref it  *)
(* was already resolving (a container of itself) - in that case the three  *)
(* simple flags are left unconstrained by the specification.               *)
(*                                                                         *)
(* kf = the set of format names known to the strfmt registry (a relation   *)
(* computed outside the repository, supplied with each case).              *)
(***************************************************************************)
EXTENDS RefSem

\* a multi-valued "type" is projected as type = "=multi" with the values in __types
TypeHas(n, t) == HasAttr(n, "type") /\ (n.at["type"] = t \/ (HasAttr(n, "__types") /\ t \in Range(n.at["__types"])))
TypeAbsent(n) == ~HasAttr(n, "type") \/ n.at["type"] = ""
KnownTypes    == {"object", "array", "string", "integer", "number", "boolean"}

KidNonEmpty(n, c) == c \in DOMAIN n.ch /\ DOMAIN n.ch[c].ch # {}
HasProps(n)  == KidNonEmpty(n, "properties")
HasAllOf(n)  == KidNonEmpty(n, "allOf")
ItemsList(n) == "items" \in DOMAIN n.ch /\ IsList(n.ch["items"])
HasItems(n)  == "items" \in DOMAIN n.ch /\ (~IsList(n.ch["items"]) \/ DOMAIN n.ch["items"].ch # {})
AllowsAttr(n, a) == HasAttr(n, a) /\ n.at[a] = "=true"
HasAddProps(n) == "additionalProperties" \in DOMAIN n.ch \/ AllowsAttr(n, "additionalProperties")
HasAddItems(n) == "additionalItems" \in DOMAIN n.ch \/ AllowsAttr(n, "additionalItems")

NoFlags == [IsKnownType |-> FALSE, IsSimpleSchema |-> FALSE, IsArray |-> FALSE, IsSimpleArray |-> FALSE, IsMap |-> FALSE,
            IsSimpleMap |-> FALSE, IsExtendedObject |-> FALSE, IsTuple |-> FALSE, IsTupleWithExtra |-> FALSE,
            IsBaseType |-> FALSE, IsEnum |-> FALSE, cyc |-> FALSE]

RECURSIVE Classify(_, _, _, _)
Classify(b, pos, visited, kf) ==
  LET n == NodeAt(b, pos) IN
  IF HasRef(n) THEN
     \* inferFromRef: every flag is inherited from the classification of the target
     LET t == RefOf(n) IN
     IF t \in visited \/ ~Valid(b, t) THEN [NoFlags EXCEPT !.cyc = (t \in visited)]
     ELSE Classify(b, t, visited \cup {t}, kf)
  ELSE
     LET obj    == TypeAbsent(n) \/ TypeHas(n, "object")
         arr    == TypeHas(n, "array")
         known  == \/ TypeHas(n, "boolean") \/ TypeHas(n, "integer") \/ TypeHas(n, "number") \/ TypeHas(n, "string")
                   \/ (HasAttr(n, "format") /\ n.at["format"] \in kf)
                   \/ (obj /\ ~HasProps(n) /\ ~HasAllOf(n) /\ ~HasAddProps(n) /\ ~HasAddItems(n))
         extra  == HasProps(n) \/ HasAllOf(n)
         isMap  == obj /\ HasAddProps(n) /\ ~extra
         ext    == obj /\ HasAddProps(n) /\ extra
         msub   == IF isMap /\ "additionalProperties" \in DOMAIN n.ch
                   THEN Classify(b, Append(pos, "additionalProperties"), visited, kf) ELSE NoFlags
         smap   == isMap /\ (IF "additionalProperties" \in DOMAIN n.ch THEN msub.IsSimpleSchema ELSE TRUE)
         isArr  == arr /\ ~ItemsList(n)
         asub   == IF isArr /\ HasItems(n) THEN Classify(b, Append(pos, "items"), visited, kf) ELSE NoFlags
         sarr   == isArr /\ (IF HasItems(n) THEN asub.IsSimpleSchema ELSE TRUE)
         tuple  == HasItems(n) /\ ItemsList(n)
     IN [IsKnownType |-> known, IsSimpleSchema |-> known \/ sarr \/ smap, IsArray |-> isArr, IsSimpleArray |-> sarr,
         IsMap |-> isMap, IsSimpleMap |-> smap, IsExtendedObject |-> ext,
         IsTuple |-> tuple /\ ~HasAddItems(n), IsTupleWithExtra |-> tuple /\ HasAddItems(n),
         IsBaseType |-> obj /\ HasAttr(n, "discriminator") /\ n.at["discriminator"] # "",
         IsEnum |-> HasAttr(n, "enum") /\ n.at["enum"] # <<>>,
         cyc |-> msub.cyc \/ asub.cyc]

ClassifyAt(b, pos, kf) == Classify(b, pos, {}, kf)

\* the coherence laws of the property
Coherent(f) ==
  /\ f.IsSimpleSchema = (f.IsKnownType \/ f.IsSimpleArray \/ f.IsSimpleMap)
  /\ (f.IsSimpleArray => f.IsArray)
  /\ (f.IsSimpleMap => f.IsMap)
  /\ ~(f.IsMap /\ f.IsExtendedObject)
  /\ ~(f.IsTuple /\ f.IsTupleWithExtra)
  /\ ~(f.IsArray /\ (f.IsTuple \/ f.IsTupleWithExtra))

FlagNames   == {"IsKnownType", "IsSimpleSchema", "IsArray", "IsSimpleArray", "IsMap", "IsSimpleMap", "IsExtendedObject",
                "IsTuple", "IsTupleWithExtra", "IsBaseType", "IsEnum"}
SimpleFlags == {"IsSimpleSchema", "IsSimpleArray", "IsSimpleMap"}
\* recorded flags agree with the specification (simple flags free on self-containing containers)
Agrees(rec, f) == \A k \in FlagNames : (f.cyc /\ k \in SimpleFlags) \/ rec[k] = f[k]
Differing(rec, f) == { k \in FlagNames : ~((f.cyc /\ k \in SimpleFlags) \/ rec[k] = f[k]) }

IsComplexFlags(f) == ~f.IsSimpleSchema /\ ~f.IsArray /\ ~f.IsMap
\* documented rule on well-typed schemas: objects with properties, allOf and tuples are complex; primitives, arrays, maps, empty objects are not
DocumentedComplex(n) == HasProps(n) \/ HasAllOf(n) \/ (HasItems(n) /\ ItemsList(n))
WellTypedSchema(n) ==
  /\ ~HasRef(n)
  /\ (TypeAbsent(n) \/ n.at["type"] \in KnownTypes)
  /\ (HasProps(n) \/ HasAllOf(n)) => (TypeAbsent(n) \/ TypeHas(n, "object"))
  /\ (HasItems(n) /\ ItemsList(n)) => TypeHas(n, "array")
  /\ (TypeHas(n, "array") => ~HasProps(n) /\ ~HasAllOf(n))
  /\ (TypeHas(n, "string") \/ TypeHas(n, "integer") \/ TypeHas(n, "number") \/ TypeHas(n, "boolean")) => (~HasProps(n) /\ ~HasAllOf(n) /\ ~ItemsList(n))
  /\ ~(HasAttr(n, "format") /\ (HasProps(n) \/ HasAllOf(n) \/ ItemsList(n)))
=============================================================================
