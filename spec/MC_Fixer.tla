------------------------------ MODULE MC_Fixer ------------------------------
(***************************************************************************)
(* Exhaustive decision table of C19: per response location                 *)
(*   {absent, described, empty description, no description, $ref}          *)
(* at shared / default / status-code responses under a chosen method, plus *)
(* operations without a responses object and documents without paths.      *)
(* Invariants: Fix is idempotent, leaves nothing undescribed, and changes  *)
(* nothing but descriptions of response-typed, non-$ref positions.         *)
(***************************************************************************)
EXTENDS Fixer, Json

CONSTANT Export
RespKinds == {"absent", "described", "blankdesc", "emptydesc", "nodesc", "ref", "docref"}
OpKinds   == {"noop", "noresponses", "responses"}
MkResp(k) ==
  CASE k = "described" -> Mk([description |-> "ok"], <<>>)
    [] k = "blankdesc" -> Mk([description |-> " "], <<>>)          \* whitespace only: a description nonetheless
    [] k = "emptydesc" -> Mk([description |-> ""], [schema |-> Mk([type |-> "string"], <<>>)])
    [] k = "nodesc"    -> Mk(<<>>, [schema |-> Mk([type |-> "integer"], <<>>)])
    [] k = "ref"       -> Mk(("$ref" :> <<"root", "responses", "N_1">>), <<>>)
    \* a $ref to a whole document (one file per response): no fragment, hence no JSON pointer
    [] k = "docref"    -> Mk(("$ref" :> <<"?responses/notfound.json">>), <<>>)

VARIABLES phase, doc, m
vars == <<phase, doc, m>>

Build(meth, shared, opk, dflt, code, paths) ==
  LET resps == (IF dflt = "absent" THEN <<>> ELSE [default |-> MkResp(dflt)]) @@ (IF code = "absent" THEN <<>> ELSE ("200" :> MkResp(code)))
      op    == IF opk = "noresponses" THEN Mk([operationId |-> "op1"], <<>>)
               ELSE Mk([operationId |-> "op1"], [responses |-> Mk(<<>>, resps)])
      pi    == IF opk = "noop" THEN Mk(<<>>, <<>>) ELSE Mk(<<>>, (meth :> op))
      sh    == IF shared = "absent" THEN <<>> ELSE [responses |-> Mk(<<>>, [N_1 |-> MkResp(shared)])]
      pp    == IF paths THEN [paths |-> Mk(<<>>, [P_1 |-> pi])] ELSE <<>>
  IN Mk([swagger |-> "2.0"], sh @@ pp)

Init == phase = "pick" /\ doc = Empty /\ m = "-"
Pick(meth, shared, opk, dflt, code, paths) ==
  /\ phase = "pick" /\ phase' = "doc" /\ m' = meth
  /\ shared \notin {"ref"}
  /\ (opk # "responses" => dflt = "absent" /\ code = "absent")
  /\ (~paths => opk = "noop" /\ meth = "get")
  /\ doc' = Build(meth, shared, opk, dflt, code, paths)
Next == \E meth \in Methods, shared \in RespKinds, opk \in OpKinds, dflt \in RespKinds, code \in RespKinds, paths \in BOOLEAN :
           Pick(meth, shared, opk, dflt, code, paths)
Spec == Init /\ [][Next]_vars

Idempotent   == phase = "doc" => Fix(Fix(doc, {}), {}) = Fix(doc, {})
Complete     == phase = "doc" => AllDescribed(Fix(doc, {}), {})
RECURSIVE StripDesc(_)
StripDesc(n) == [at |-> [a \in DOMAIN n.at \ {"description"} |-> n.at[a]], ch |-> [c \in DOMAIN n.ch |-> StripDesc(n.ch[c])]]
OnlyDescs    == phase = "doc" => StripDesc(Fix(doc, {})) = StripDesc(doc)
KeepsGiven   == phase = "doc" => \A p \in Paths(doc) : (HasAttr(At(doc, p), "description") /\ At(doc, p).at["description"] # "")
                                    => At(Fix(doc, {}), p).at["description"] = At(doc, p).at["description"]
RefsUntouched == phase = "doc" => \A p \in Paths(doc) : HasRef(At(doc, p)) => At(Fix(doc, {}), p) = At(doc, p)
ExportDoc    == (phase = "doc" /\ Export) => PrintT(ToJson([m |-> m, doc |-> doc]))
=============================================================================
