---- MODULE MC_Faults ----
EXTENDS Faults
====
