------------------------------- MODULE Paths --------------------------------
(***************************************************************************)
(* Rebasing of the $refs found inside an imported schema                   *)
(* (internal/flatten/normalize: RebaseRef, and Path which keys the         *)
(* reverse index of remote references), as functions on structured         *)
(* locations.                                                              *)
(*                                                                         *)
(*   a base is where the importing $ref points:                            *)
(*     [kind |-> "file", segs |-> <<dir.., file>>, frag]  absolute file    *)
(*     [kind |-> "empty" | "dot" | "frag"]                 nothing to do   *)
(*   a ref is what the imported schema says:                               *)
(*     [kind |-> "frag", frag]          local to its own document          *)
(*     [kind |-> "rel",  segs, frag]    relative path (segments may be     *)
(*                                       "." and ".."), optional fragment  *)
(*     [kind |-> "abs",  segs, frag]    absolute path                      *)
(*   frag = "" means "no fragment".                                        *)
(*                                                                         *)
(* The meaning of a rebased $ref is the FILE it designates plus the        *)
(* fragment: Locate walks the segments from the directory of the base.     *)
(* URL bases (host present) are transcribed in the module comment of       *)
(* Trace_Paths only: no property quantifies over them (and the code drops  *)
(* the fragment there).                                                    *)
(***************************************************************************)
EXTENDS Naturals, Sequences, TLC

Front(s) == SubSeq(s, 1, Len(s) - 1)
\* lexical walk from the root: "." stays, ".." goes up (never above the root), a name goes down
RECURSIVE Walk(_, _)
Walk(acc, segs) ==
  IF segs = <<>> THEN acc
  ELSE LET s == Head(segs) IN
       Walk(IF s = "." THEN acc ELSE IF s = ".." THEN (IF acc = <<>> THEN <<>> ELSE Front(acc)) ELSE Append(acc, s), Tail(segs))
Clean(segs) == Walk(<<>>, segs)
Dir(fileSegs) == IF fileSegs = <<>> THEN <<>> ELSE Front(fileSegs)

\* what the rebased $ref must designate: <<file segments from the root, fragment>>
Rebase(base, ref) ==
  CASE base.kind \in {"empty", "dot", "frag"} -> [kind |-> ref.kind, segs |-> (IF ref.kind = "frag" THEN <<>> ELSE ref.segs), frag |-> ref.frag]
    [] ref.kind = "frag" -> [kind |-> "abs", segs |-> base.segs, frag |-> ref.frag]
    [] ref.kind = "abs"  -> [kind |-> "abs", segs |-> ref.segs, frag |-> ref.frag]
    [] OTHER             -> [kind |-> "abs", segs |-> Walk(Dir(Clean(base.segs)), ref.segs), frag |-> ref.frag]

\* normalize.Path: the absolute location of a $ref found in the ROOT document whose file is basePath
KeyPath(basePath, ref) ==
  CASE ref.kind = "frag" -> [kind |-> "frag", segs |-> <<>>, frag |-> ref.frag]
    [] ref.kind = "abs"  -> [kind |-> "abs", segs |-> ref.segs, frag |-> ref.frag]
    [] OTHER             -> [kind |-> "abs", segs |-> Walk(Dir(Clean(basePath)), ref.segs), frag |-> ref.frag]

\* two results designate the same thing (a rendering need not be cleaned)
SameLocation(a, b) ==
  /\ a.kind = b.kind /\ a.frag = b.frag
  /\ IF a.kind = "abs" THEN Clean(a.segs) = Clean(b.segs) ELSE a.segs = b.segs

\* ---- laws of the specification itself ----------------------------------------------------------------
\* rebasing onto a file and then locating from the root is locating the ref from the directory of the file
LawLocate(base, ref) ==
  (base.kind = "file" /\ ref.kind = "rel") => Clean(Rebase(base, ref).segs) = Walk(Dir(Clean(base.segs)), ref.segs)
\* rebasing is idempotent: a rebased ref is absolute, rebasing it again (onto anything) changes nothing
LawIdem(base, base2, ref) ==
  (base.kind = "file" /\ base2.kind = "file") =>
     LET r == Rebase(base, ref) IN SameLocation(Rebase(base2, [kind |-> r.kind, segs |-> r.segs, frag |-> r.frag]), r)
\* a step down followed by ".." is no step: a/../x designates what x designates
LawDotDot(base, ref) ==
  (base.kind = "file" /\ ref.kind = "rel") =>
     SameLocation(Rebase(base, [ref EXCEPT !.segs = <<"a", "..">> \o @]), Rebase(base, ref))
=============================================================================
