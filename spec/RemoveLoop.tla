----------------------------- MODULE RemoveLoop -----------------------------
(***************************************************************************)
(* C06, termination clause: the fixpoint loop of removeUnused as a state   *)
(* machine over an abstract reference graph.  defs = remaining definition  *)
(* names; uses = which definition holds a $ref to which; roots = names     *)
(* referred to from outside the definitions (operations).  One Pass        *)
(* removes every definition nothing refers to; the loop repeats while a    *)
(* pass removed something.  TLC explores EVERY graph over Names.           *)
(***************************************************************************)
EXTENDS Naturals, FiniteSets, TLC
CONSTANT Names
VARIABLES defs, uses, roots, done
vars == <<defs, uses, roots, done>>

Referred(d, u, r) == r \cup { e[2] : e \in { x \in u : x[1] \in d } }
Unused(d, u, r)   == d \ Referred(d, u, r)

Init == /\ defs \in SUBSET Names /\ uses \in SUBSET (defs \X defs) /\ roots \in SUBSET defs /\ done = FALSE
Pass == /\ ~done
        /\ LET U == Unused(defs, uses, roots) IN
           IF U = {} THEN done' = TRUE /\ UNCHANGED <<defs, uses, roots>>
           ELSE /\ defs' = defs \ U
                /\ uses' = { e \in uses : e[1] \notin U }       \* the $refs held by a removed definition go with it
                /\ UNCHANGED <<roots, done>>
Spec == Init /\ [][Pass]_vars /\ WF_vars(Pass)

\* the variant: a pass that removes something strictly shrinks the set of definitions
Shrinks    == [][~done' => (defs' \subseteq defs /\ defs' # defs)]_vars
Terminates == <>done
\* at the fixpoint every remaining definition is referred to, and nothing dangles that did not dangle before
AllUsed    == done => Unused(defs, uses, roots) = {}
NoDangling == \A e \in uses : e[1] \in defs => e[2] \in defs
RootsKept  == roots \subseteq defs
=============================================================================
