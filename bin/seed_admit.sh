#!/bin/bash
# Admit one seeded change into /verif/seeded/<ID><v>/ after confirming it on the CURRENT /repo HEAD in a scratch worktree:
#   (1) the demonstration passes without the change, (2) with it the existing suite is at baseline and the demonstration fails,
#   (3) run the property's own check (quick tier, then thorough if quick misses) against the changed tree; record everything in meta.json.
# usage: bin/seed_admit.sh <ID> <a|b> [source dir, default /tmp/wtout/<ID>/<v>]
export GOFLAGS=-mod=mod GOPROXY=off GOSUMDB=off GOTOOLCHAIN=local
id=$1; v=$2; src=${3:-/tmp/wtout/$id/$v}; tv=${4:-$v}   # tv: name of the variant under seeded/ (round 2: c, d)
patch=$src/patch.diff; rebased=false
[ -f $src/patch.rebased.diff ] && { patch=$src/patch.rebased.diff; rebased=true; }
demo=$(ls $src/*_test.go 2>/dev/null | head -1)
wt=/tmp/admit/$id$tv; mkdir -p /tmp/admit; rm -rf $wt
git -C /repo worktree add -q --detach $wt ${SEED_BASE:-0c0509d} || exit 2
cleanup() { git -C /repo worktree remove --force $wt 2>/dev/null; }
trap cleanup EXIT
cd $wt
cp $demo ./zz_seed_demo_test.go
rx=$(grep -oE '^func Test[A-Za-z0-9_]+' zz_seed_demo_test.go | sed 's/func //' | paste -sd'|')
if timeout 600 go test -count=1 -run "^($rx)\$" . >/tmp/admit/$id$tv.clean.log 2>&1; then clean=pass; else clean=FAIL; fi
if ! git apply $patch 2>/tmp/admit/$id$tv.apply.log; then
  # written against an older HEAD: three-way merge onto the current one (the stored patch is then the merged diff)
  git apply --3way $patch 2>>/tmp/admit/$id$tv.apply.log && git reset -q && rm -f zz_seed_demo_test.go && git diff > /tmp/admit/$id$tv.rebased.diff && cp $demo ./zz_seed_demo_test.go \
    || { echo "$id$tv: PATCH-DOES-NOT-APPLY"; exit 3; }
  patch=/tmp/admit/$id$tv.rebased.diff; rebased=true
fi
if timeout 600 go test -count=1 -run "^($rx)\$" . >/tmp/admit/$id$tv.patched.log 2>&1; then patched=PASS; else patched=fail; fi
rm -f zz_seed_demo_test.go
go test -json -vet=off -count=1 ./... > /tmp/admit/$id$tv.suite.json 2>&1
(cd analysis_test && go test -json -vet=off -count=1 ./... >> /tmp/admit/$id$tv.suite.json 2>&1)
suite=$(python3 - /tmp/admit/$id$tv.suite.json <<'PY'
import json,sys
fails=set(); passes=0
for l in open(sys.argv[1]):
    try: e=json.loads(l)
    except Exception: continue
    if e.get('Test') is None: continue
    if e.get('Action')=='fail': fails.add(e['Test'])
    if e.get('Action')=='pass': passes+=1
bad=[f for f in fails if not f.startswith('TestFlatten_RemoteAbsolute')]
print("%d/%d"%(passes,len(bad)))
PY
)
cd /verif
quick=$(VERIF_REPO=$wt bin/verif check $id --tier quick 2>&1); qrc=$?
qsig=$(echo "$quick" | grep -E "^  sig=" | head -2 | cut -c1-200 | tr '\n' '|' | tr '"' "'")
trc=""; tsig=""
if [ $qrc -ne 1 ]; then
  if [ -n "$ADMIT_THOROUGH" ]; then
    thorough=$(VERIF_REPO=$wt bin/verif check $id --tier thorough 2>&1); trc=$?
    tsig=$(echo "$thorough" | grep -E "^  sig=" | head -2 | cut -c1-200 | tr '\n' '|' | tr '"' "'")
  else
    # cheaper second chance: two other seeds of the quick tier
    for sd in 2 3; do
      q2=$(VERIF_SEED=$sd VERIF_REPO=$wt bin/verif check $id --tier quick 2>&1); r2=$?
      if [ $r2 -eq 1 ]; then trc=1; tsig="(quick, seed $sd) $(echo "$q2" | grep -E "^  sig=" | head -2 | cut -c1-200 | tr '\n' '|' | tr '"' "'")"; break; fi
      trc=$r2
    done
  fi
fi
tag=$(echo "$wt" | md5sum | cut -c1-10); rm -rf .build/alt-$tag .build/harness-$tag*
echo "$id$tv: demo_clean=$clean demo_patched=$patched suite(pass/unexpected_fail)=$suite quick_rc=$qrc thorough_rc=$trc rebased=$rebased"
if [ "$clean" = pass ] && [ "$patched" = fail ] && [ "${suite#*/}" = 0 ]; then
  d=seeded/$id$tv; mkdir -p $d
  cp $patch $d/patch.diff; cp $demo $d/demo_test.go; [ -f $src/NOTES.md ] && cp $src/NOTES.md $d/NOTES.md
  python3 - "$d" "$id" "$tv" "$clean" "$patched" "$suite" "$qrc" "$trc" "$rebased" "$qsig" "$tsig" "${SEED_BASE:-0c0509d}" <<'PY'
import json,sys,re,os
d,id_,v,clean,patched,suite,qrc,trc,rebased,qsig,tsig,head=sys.argv[1:13]
notes=open(os.path.join(d,'NOTES.md')).read() if os.path.exists(os.path.join(d,'NOTES.md')) else ''
needs=''
m=re.search(r'(?is)(needs|manifest|trigger)[^\n]*\n(.{0,600})',notes)
meta={"property":id_,"variant":v,"origin":"independent sub-agent given only the property text and a scratch worktree",
 "rebased_onto_fix_commits":rebased=='true',"repo_head_when_confirmed":head,
 "what_it_needs_to_manifest":(m.group(0)[:700] if m else "see NOTES.md"),
 "confirmed":{"demo_without_change":clean,"demo_with_change":patched,"suite_pass_count/unexpected_failures":suite,
   "commands":["go test -count=1 -run '^(<demo tests>)$' .   (clean worktree of /repo HEAD, then with patch applied)","go test -json -vet=off -count=1 ./... (+ analysis_test)"]},
 "detection":{"quick_exit":int(qrc),"quick_signatures":qsig,"thorough_exit":(int(trc) if trc else None),"thorough_signatures":tsig,
   "caught":int(qrc)==1 or (trc!='' and int(trc)==1)}}
json.dump(meta,open(os.path.join(d,'meta.json'),'w'),indent=1)
PY
fi
