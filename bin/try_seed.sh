#!/bin/bash
# Apply a seeded patch to /repo, run the given checks (quick tier), undo the patch.
# usage: bin/try_seed.sh <patch.diff> <ID> [<ID>...]      env: TIER=quick|thorough
patch=$1; shift
git -C /repo diff --quiet || { echo "/repo has uncommitted changes"; exit 2; }
git -C /repo apply $patch || exit 2
trap 'git -C /repo checkout -- . ; git -C /repo clean -fdq' EXIT
for id in "$@"; do
  out=$(/verif/bin/verif check $id --tier ${TIER:-quick} 2>&1); rc=$?
  echo "== $id rc=$rc $(echo "$out" | grep -E '^(VIOLATION|OK|HARNESS)' | head -2 | cut -c1-160 | tr '\n' ' ')"
  echo "$out" | grep -E "^  sig=" | head -3 | cut -c1-220
done
