#!/bin/bash
# Build the verification framework from files on disk only (offline).
set -e
cd "$(dirname "$0")/.."
export GOFLAGS=-mod=mod GOPROXY=off GOSUMDB=off GOTOOLCHAIN=local
mkdir -p .build evidence
cp /repo/go.sum harness/go.sum
(cd harness && go build -tags verif -o ../.build/harness . )
echo "setup ok"
