#!/bin/bash
# Runs every registered check (quick by default) on the unchanged tree with VERIF_SEED (default 1); prints one line per check.
cd "$(dirname "$0")/.."
tier=${1:-quick}
export VERIF_SEED=${VERIF_SEED:-1}
rc=0
for id in $(python3 -c "import json;print(' '.join(c['property_id'] for c in json.load(open('MANIFEST.json'))['checks']))"); do
  s=$(date +%s)
  out=$(bin/verif check $id --tier $tier 2>&1); r=$?
  e=$(( $(date +%s) - s ))
  echo "$id rc=$r ${e}s $(echo "$out" | grep -E '^(OK|VIOLATION|HARNESS|KNOWN)' | head -2 | cut -c1-150 | tr '\n' ' ')"
  [ $r -ne 0 ] && rc=1
done
exit $rc
