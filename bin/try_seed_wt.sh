#!/bin/bash
# Try a seeded change in a scratch worktree (never touches /repo): bin/try_seed_wt.sh <patch.diff> <ID> [<ID>...]
# env: TIER, VERIF_SCEN, VERIF_ALLVIOL.  The worktree is created under /tmp/mut and removed afterwards.
patch=$(readlink -f $1); shift
name=$(echo "$patch" | md5sum | cut -c1-8)
wt=/tmp/mut/$name
mkdir -p /tmp/mut
git -C /repo worktree add -q --detach $wt HEAD || exit 2
tag=$(echo "$wt" | md5sum | cut -c1-10)
trap 'git -C /repo worktree remove --force '$wt' 2>/dev/null; rm -rf /verif/.build/alt-'$tag' /verif/.build/harness-'$tag'*' EXIT
git -C $wt apply $patch || { echo "PATCH-DOES-NOT-APPLY $patch"; exit 3; }
for id in "$@"; do
  out=$(VERIF_REPO=$wt /verif/bin/verif check $id --tier ${TIER:-quick} 2>&1); rc=$?
  echo "== $id rc=$rc $(echo "$out" | grep -E '^(VIOLATION |OK|HARNESS)' | head -2 | cut -c1-140 | tr '\n' ' ')"
  echo "$out" | grep -E "^  sig=|^VIOLATION-CASE" | head -${SHOW:-3} | cut -c1-260
done
