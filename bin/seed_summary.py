#!/usr/bin/env python3
"""Writes seeded/SUMMARY.md from the meta.json files."""
import json, glob, os
root = os.path.dirname(os.path.dirname(os.path.abspath(__file__)))
rows = []
# notes kept apart from meta.json (which is rewritten by every admission): why a change is not expected to be flagged, or which check flags it
notes = json.load(open(os.path.join(root, "seeded", "notes.json"))) if os.path.exists(os.path.join(root, "seeded", "notes.json")) else {}
for d in sorted(glob.glob(os.path.join(root, "seeded", "C*"))):
    m = os.path.join(d, "meta.json")
    if not os.path.exists(m):
        continue
    j = json.load(open(m))
    if os.path.basename(d) in notes and j.get("note") != notes[os.path.basename(d)]:
        j["note"] = notes[os.path.basename(d)]
        json.dump(j, open(m, "w"), indent=1)
    det = j["detection"]
    tier = "quick" if det["quick_exit"] == 1 else ("thorough" if det.get("thorough_exit") == 1 else "—")
    sig = (det["quick_signatures"] or det.get("thorough_signatures") or "").split("|")[0].strip()
    sig = sig.replace("sig=", "")[:110]
    extra = j.get("note", "")
    rows.append((os.path.basename(d), j["property"], "yes" if det["caught"] else "NO", tier, sig, extra))
caught = sum(1 for r in rows if r[2] == "yes")
out = ["# Seeded changes: which check catches which\n",
       "Each change was produced by an independent sub-agent that saw only the text of one property and a scratch worktree,",
       "then confirmed here on a scratch worktree of /repo (`bin/seed_admit.sh`): the demonstration passes without the change and fails with it,",
       "and the repository's test-suite stays at its baseline with it. `a`/`b` = first round, `c`/`d` = second, `e`/`f` = third round (rounds 2 and 3 were asked for ideas different from the earlier ones).",
       "The check run is the property's own registered check (`bin/verif check <ID>`), quick tier with seed 1 first; if it passes, the quick tier with seeds 2 and 3 (column tier = thorough).",
       "A change whose demonstration lies outside the input class of its property, or that another property's check flags, says so in the note column.\n",
       "%d of %d changes are caught by the check of the property they were written against.\n" % (caught, len(rows)),
       "| change | property | caught | tier | first violation signature | note |", "|---|---|---|---|---|---|"]
for r in rows:
    out.append("| %s | %s | %s | %s | `%s` | %s |" % r)
open(os.path.join(root, "seeded", "SUMMARY.md"), "w").write("\n".join(out) + "\n")
print("%d/%d caught" % (caught, len(rows)))
