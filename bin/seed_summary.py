#!/usr/bin/env python3
"""Writes seeded/SUMMARY.md from the meta.json files."""
import json, glob, os
root = os.path.dirname(os.path.dirname(os.path.abspath(__file__)))
rows = []
for d in sorted(glob.glob(os.path.join(root, "seeded", "C*"))):
    m = os.path.join(d, "meta.json")
    if not os.path.exists(m):
        continue
    j = json.load(open(m))
    det = j["detection"]
    tier = "quick" if det["quick_exit"] == 1 else ("thorough" if det.get("thorough_exit") == 1 else "—")
    sig = (det["quick_signatures"] or det.get("thorough_signatures") or "").split("|")[0].strip()
    sig = sig.replace("sig=", "")[:110]
    extra = j.get("note", "")
    rows.append((os.path.basename(d), j["property"], "yes" if det["caught"] else "NO", tier, sig, extra))
caught = sum(1 for r in rows if r[2] == "yes")
out = ["# Seeded changes: which check catches which\n",
       "Each change was produced by an independent sub-agent that saw only the text of one property and a scratch worktree,",
       "then confirmed here on a scratch worktree of /repo (`bin/seed_admit.sh`): the demonstration passes without the change and fails with it,",
       "and the repository's test-suite stays at its baseline with it. `a`/`b` = first round, `c`/`d` = second round (asked for ideas different from the first).",
       "The check run is the property's own registered check (`bin/verif check <ID>`), quick tier first, thorough only if quick passes.\n",
       "%d of %d changes are caught by the check of the property they were written against.\n" % (caught, len(rows)),
       "| change | property | caught | tier | first violation signature | note |", "|---|---|---|---|---|---|"]
for r in rows:
    out.append("| %s | %s | %s | %s | `%s` | %s |" % r)
open(os.path.join(root, "seeded", "SUMMARY.md"), "w").write("\n".join(out) + "\n")
print("%d/%d caught" % (caught, len(rows)))
