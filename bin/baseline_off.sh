#!/bin/bash
# Runs the repository's test-suite with the verif guard OFF (no build tag).
# Exit 0 iff every failing test is one of the tests that always fail offline (BASELINE.json always_fail).
export GOFLAGS=-mod=mod GOPROXY=off GOSUMDB=off GOTOOLCHAIN=local
out=$(mktemp)
rc=0
for m in . analysis_test; do
  (cd /repo/$m && go test -mod=mod -json -vet=off -count=1 -timeout 25m ./...) >>"$out" 2>&1
done
python3 - "$out" <<'PY'
import json,sys
fails=set(); passes=0
for l in open(sys.argv[1]):
    try: e=json.loads(l)
    except Exception: continue
    if e.get('Test') is None: continue
    if e.get('Action')=='fail': fails.add(e['Package']+'::'+e['Test'])
    if e.get('Action')=='pass': passes+=1
allowed={"github.com/go-openapi/analysis::TestFlatten_RemoteAbsolute",
 "github.com/go-openapi/analysis::TestFlatten_RemoteAbsolute/remote_absolute_fixtures/bugs/remote-absolute/swagger-mini.json",
 "github.com/go-openapi/analysis::TestFlatten_RemoteAbsolute/remote_absolute_fixtures/bugs/remote-absolute/swagger-with-remote-only-ref.json"}
bad=sorted(fails-allowed)
print("passed=%d failed=%d unexpected_failures=%d"%(passes,len(fails),len(bad)))
for b in bad: print("UNEXPECTED FAIL",b)
sys.exit(1 if bad or passes<222 else 0)
PY
rc=$?
rm -f "$out"
exit $rc
