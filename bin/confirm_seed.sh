#!/bin/bash
# Confirm a seeded change in a scratch worktree: suite at baseline with the patch, demo passes without / fails with.
# usage: bin/confirm_seed.sh <worktree> <dir with patch.diff + demo_test.go>
export GOFLAGS=-mod=mod GOPROXY=off GOSUMDB=off GOTOOLCHAIN=local
wt=$1; d=$2
cd $wt || exit 2
git checkout -q -- . && git clean -fdq
demo=$(ls $d/*_test.go $d/*.go 2>/dev/null | head -1)
cp $demo ./zz_seed_demo_test.go
rx=$(grep -oE '^func Test[A-Za-z0-9_]+' zz_seed_demo_test.go | sed 's/func //' | paste -sd'|')
if timeout 300 go test -count=1 -run "^($rx)\$" . >/tmp/confirm_clean.log 2>&1; then clean=pass; else clean=FAIL; fi
git apply $d/patch.diff || { echo "patch does not apply"; exit 2; }
if timeout 300 go test -count=1 -run "^($rx)\$" . >/tmp/confirm_patched.log 2>&1; then patched=PASS; else patched=fail; fi
rm -f zz_seed_demo_test.go
go test -json -vet=off -count=1 ./... 2>&1 > /tmp/confirm_suite.json
(cd analysis_test && go test -json -vet=off -count=1 ./... 2>&1 >> /tmp/confirm_suite.json)
suite=$(python3 - <<'PY'
import json
fails=set(); passes=0
for l in open('/tmp/confirm_suite.json'):
    try: e=json.loads(l)
    except Exception: continue
    if e.get('Test') is None: continue
    if e.get('Action')=='fail': fails.add(e['Test'])
    if e.get('Action')=='pass': passes+=1
bad=[f for f in fails if not f.startswith('TestFlatten_RemoteAbsolute')]
print("suite_passed=%d unexpected_fail=%d"%(passes,len(bad)), bad[:3])
PY
)
git checkout -q -- . && git clean -fdq
echo "$(basename $(dirname $d))/$(basename $d): demo_clean=$clean demo_patched=$patched $suite"
