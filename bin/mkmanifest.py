#!/usr/bin/env python3
"""Regenerates /verif/MANIFEST.json from the table below (single source of truth for the registered checks)."""
import json, os, subprocess

ROOT = os.path.dirname(os.path.dirname(os.path.abspath(__file__)))
ids = [json.loads(l)["id"] for l in open(os.path.join(ROOT, "properties.jsonl"))]

TRACE = "TLA+ specification + TLC trace validation of recorded real-code answers"

checks = {
 "C11": dict(
   technique="TLA+ spec of the reference index (Analyzer.tla over the typed-position grammar Swagger.tla); TLC exhaustive enumeration of plant x carrier x section (MC_Analyzer) replayed into the real analyzer; TLC trace validation of recorded getter answers (Trace_Analyzer)",
   text="model_checking: MC_Analyzer enumerates every $ref plant under every schema-bearing keyword (13 carriers, nested) in every section and under every HTTP method, and every non-schema holder kind, checking that the position grammar finds it; every enumerated document plus seeded random documents over the full name alphabet plus the repository fixtures is run through analysis.New and TLC decides, per document, that the recorded bags of references equal the bags over typed positions.",
   note="Trusted: harness projection JSON->tree and $ref parsing (round-trip self-checked on every generated case), TLC/SANY/Json module, go-openapi/spec as the definition of the document's normal form. Bounds: carriers nested to depth 2 (quick; sample of 1500 of the depth-2 documents replayed) / 3 (thorough); random documents to schema depth 4.",
   ref="7/C11"),
 "C12": dict(
   technique="TLA+ spec of the schema index (Analyzer.tla/Swagger.tla); TLC-enumerated scenario documents replayed; TLC trace validation of AllDefinitions/SchemasWithAllOf answers incl. resolution of every SchemaRef.Ref through the real jsonpointer library",
   text="model_checking: same campaign as C11; per document TLC decides that the recorded schema entries are exactly the schema-typed positions, each once, each resolving (through the library) to the very schema recorded, with TopLevel and allOf flags as specified; names range over the whole alphabet (space, unicode, '/', '~', '#', '?', brackets, braces, path templates).",
   note="As C11. The equality 'pointer resolves to that very schema' is computed by the harness with the real jsonpointer implementation and handed to TLC as a logged boolean.",
   ref="7/C12"),
 "C13": dict(
   technique="TLA+ spec of the pattern/enum indexes (Analyzer.tla); TLC exhaustive decision table owner kind x location x method x items depth (MC_Analyzer) replayed; TLC trace validation of the ten pattern/enum getters",
   text="model_checking: MC_Analyzer enumerates pattern/enum/both on every owner kind (parameter, header, items at depth 0..2(3), schema under every carrier) at every location (shared, path-level, per method: operation parameter, status-code header, default header, schemas of each); TLC validates the recorded maps of the real analyzer against the sets over typed positions, category by category and for the 'all' views.",
   note="As C11. Header names are plain tokens (the code does not escape them; no property quantifies over them).",
   ref="7/C13"),
}


FL_NOTE = ("Trusted: harness projection/concretization (round-trip self-checked per case), membership in W by construction of the generators, TLC/SANY/Json module, go-openapi/spec (loader, ExpandSpec) as environment. "
           "Bounds: quick = directed corpus + 400 sampled scenarios + 36 MC_Keys names + 60 random bundles, each x 6-9 option sets (phase snapshots for a rotating third of the runs); "
           "thorough = corpus + 4000 sampled scenarios of the 21160 + all 819 names + 700 random bundles. MC_Flatten covers bundles without name collisions; the collision path is modelled in Dedup.tla "
           "(explored over every map order by MC_Dedup in the thorough tier of C07) and bound to the code by the context-conformance pass CTX of Trace_Flatten. "
           "One known finding is listed by signature in KNOWN_FINDINGS.txt (go-openapi/spec ExpandSpec, order dependent).")
FL_TECH = ("explicit TLA+ spec of the flatten pipeline (Flatten.tla: ExpandShared/ExpandAll, ImportLoop, NameLoop, PointerLoop, RemoveAll) explored exhaustively by TLC "
           "(MC_Flatten: scenario family x option sets, the properties as invariants, C01 inductive over phases); scenario family with W invariants (MC_FlattenScen, 21160 bundles) and "
           "character-class model of the escaping layers (MC_Keys) exported and replayed; TLA+ predicates (FlattenProps.tla over RefSem.tla bisimulation / Swagger.tla typing) evaluated by TLC "
           "on states recorded from the real Flatten (Trace_Flatten): initial bundle, snapshot after every phase and loop round (verif hooks), rewritten document, outcome, second pass, analyzer state; "
           "step-level conformance of every recorded phase transition against the operators of Flatten.tla with logged arguments, and conformance of every logged de-duplication step "
           "against the flatten-context model Dedup.tla (enabledness, parents, election, resulting document); C01/C04 also: the real $ref rebasing functions on every (base, ref) pair enumerated by MC_Paths, judged by TLC against Paths.tla")
checks.update({
 "C01": dict(technique=FL_TECH + "; C01 = bisimilarity of the $ref-unfolded trees section by section and definition by definition",
   text="model_checking (trace validation): for every generated bundle of W and every option set the real Flatten is run; TLC decides SameMeaning (reachable-pairs bisimulation of the $ref-unfolded documents) for paths and every other top-level member, the shared sections (unless RemoveUnused), and every pre-existing definition, plus 'only definitions are added' and 'x-go-gen-location only on new definitions'.",
   note=FL_NOTE, ref="7/C01"),
 "C02": dict(technique=FL_TECH + "; C02 = every $ref holder is schema-typed and every $ref is <<root, definitions, n>> with n defined",
   text="model_checking (trace validation): on every successful minimal/full run TLC types every $ref holder of the output with the position grammar and checks the canonical form of every $ref after URL- and pointer-unescaping.",
   note=FL_NOTE, ref="7/C02"),
 "C03": dict(technique=FL_TECH + "; C03 = no inline complex schema at a schema-typed position below the top level + case-insensitive uniqueness of created names",
   text="model_checking (trace validation): on every successful full run TLC enumerates the schema-typed positions of the output and checks none holds an object-with-properties / allOf / tuple inline, and that every created name differs from every other definition name up to letter case (fold classes computed with strings.EqualFold).",
   note=FL_NOTE, ref="7/C03"),
 "C04": dict(technique=FL_TECH + "; C04 = outcome ok for every (bundle of W, option set) and the result satisfies C01-C03 where they apply",
   text="model_checking (trace validation): Flatten must return nil on every generated bundle of W under every option set (crashes and time-outs, confirmed in a fresh process, count as failures) and what it returns must satisfy C01 (every mode), C02 (Minimal/full) and C03 (full), evaluated by TLC on the same record.",
   note=FL_NOTE, ref="7/C04"),
 "C05": dict(technique=FL_TECH + "; C05 = remaining $refs canonical, C01, no $ref at all when the bundle's $ref graph (HasCycle in RefSem.tla) is acyclic, bytes equal on re-run",
   text="model_checking (trace validation): on every successful Expand run TLC computes the $ref graph of the input bundle and requires an output without any $ref when it is acyclic, canonical targets otherwise, C01, and byte-identical output of a second run from the files.",
   note=FL_NOTE, ref="7/C05"),
 "C06": dict(technique=FL_TECH + "; C06 = shared sections empty, every definition targeted, no dangling $ref, paths bisimilar",
   text="model_checking (trace validation): on every successful run with RemoveUnused TLC checks the four clauses on the output; names range over the whole alphabet, used and unused, including chains that become unused.",
   note=FL_NOTE, ref="7/C06"),
 "C08": dict(technique=FL_TECH + "; C08 = second Flatten of the serialized output succeeds and leaves tree and bytes unchanged",
   text="model_checking (trace validation): every successful minimal/full run is serialized, reloaded and flattened again with the same options; TLC requires success and an identical tree (and the harness logs byte equality).",
   note=FL_NOTE, ref="7/C08"),
 "C10": dict(technique=FL_TECH + "; C10 = recorded answers of every getter of the passed-in Spec equal those of analysis.New(document)",
   text="model_checking (trace validation): after every successful run all index getters (references by kind, patterns, enums, schemas with resolution through the library, allOfs), operations, ids, media types and paths of the Spec handed to Flatten are recorded next to those of a fresh analysis; TLC requires equality.",
   note=FL_NOTE, ref="7/C10"),
 "C09": dict(category="fault_enumeration",
   technique="TLA+ pipeline/fault model (Faults.tla: phases, document loads, failAt, ContinueOnError; TLC exhaustive with liveness Terminates and invariant FailSafe) bound by fault enumeration on the real code: every k-th document load failed through spec.PathLoader, crash/hang attribution in worker sub-processes, recorded outcomes validated by TLC (Trace_Faults)",
   text="fault_enumeration: Flatten (all modes, +-RemoveUnused, +-ContinueOnError) runs in isolated workers on bundles of W, of W+ (arbitrary and nested anonymous pointers, back references, dangling remote/anonymous $refs, container recursion), on TLC-enumerated scenarios and on the fixtures; panics, fatal errors (stack overflow) and hangs (10 s, confirmed 20 s in a fresh process) are attributed to the call; for a subset every load position k in 1..L is failed in turn; analysis.New runs on every document; TLC checks each recorded call against the contract of the fault model.",
   note="Trusted: the worker pool's crash attribution; spec.PathLoader as the single loading point; generator's knowledge of which $refs it made unresolvable. Local '#/definitions/<missing>' references are outside the claim (interpretation, DESIGN.md). Full expansion of the azure fixtures is skipped (finite but astronomically large). Schema() termination is exercised through C20's check and through full flattening here.",
   ref="7/C09"),
 "C17": dict(
   technique="TLA+ state machine of Mixin over attributed trees (Mixin.tla: MixStep per absorbed mixin); TLC exhaustive over per-section families of histories (MC_Mixin, 0..2 mixins, 11 families) checking the declarative statements (FirstWins, ListUnion, ScalarFill, PrimaryKept, KeyCollisions) of the operational definition; enumerated and random histories replayed: the state after EVERY mixin recorded from the real code and compared by TLC (Trace_Mixin)",
   text="model_checking: TLC proves on every enumerated history that the step-wise definition satisfies 'primary wins / first document wins / order-preserving de-duplicated lists / fill-if-empty scalars / one collision per key met again'; the real Mixin is run on every prefix of each replayed history (fresh copies) and TLC compares document and collision count after each mixin with the model, including all presence patterns of info/contact/license/externalDocs/extensions/paths.",
   note="Trusted: projection (round-trip self-checked), TLC/Json; the operational model is the reference for fields the statement does not mention. Bounds: MC 2 mixins per family with 2-key universes; random histories up to 3 mixins with 3 keys per section.",
   ref="7/C17"),
 "C18": dict(
   technique="same TLA+ state machine (Mixin.tla: ids set, MergeItemOps renaming) and the declarative IdsOK (pairwise distinct non-empty ids, renamed only if the original id is still borne by another operation, id-less stay id-less) as TLC invariant over families placing collisions under each of the seven HTTP methods; recorded id bags of the real result compared by TLC after every mixin",
   text="model_checking: one MC_Mixin family per HTTP method puts id collisions primary<->mixin and mixin<->mixin and id-less operations under that method; InvIds holds on all reachable histories; the real code's operation ids after each absorbed mixin must equal the model's and satisfy IdsOK.",
   note="As C17; histories respect the precondition of the property (ids unique within each document, no id of the form <id>Mixin<N> of another).",
   ref="7/C18"),
 "C19": dict(
   technique="TLA+ spec of the fixer over typed positions (Fixer.tla: Fix = description := '(empty)' at response-typed, non-$ref, undescribed positions); TLC exhaustive decision table (MC_Fixer: response kind x location x 7 methods x missing responses object / paths) with invariants Idempotent, Complete, OnlyDescs, KeepsGiven, RefsUntouched; every enumerated document + random + fixtures run through the real function twice and validated by TLC (Trace_Fixer: after = Fix(before), after2 = after)",
   text="model_checking: the decision table is enumerated completely in the model and replayed; TLC decides on every recorded triple (before, after, after second call) that the real function did exactly what Fix specifies - nothing missed, nothing else changed, idempotent, no panic.",
   note="Trusted: projection (round-trip self-checked), TLC/Json.", ref="7/C19"),
 "C20": dict(
   technique="TLA+ transcription of the classification rules (Classify.tla, with visited-set recursion through $ref/items/additionalProperties); TLC exhaustive over the schema grammar (MC_Classify: 22 leaf kinds x 9 containers to depth 2/3 inside a root with self-containing and mutually recursive targets) checking coherence, $ref transparency and the documented complexity rule on the specification; every enumerated, random and fixture schema position classified by the real Schema() in isolated workers and compared flag by flag by TLC (Trace_Classify)",
   text="model_checking: coherence laws and $ref transparency are invariants of the specified classification over the whole enumerated grammar; the real Schema() must return the specified flags at every schema position of every replayed document (simple flags are left free only on containers of themselves), be coherent and $ref-transparent on its own answers, and terminate (stack overflow / time-out attributed per document).",
   note="Trusted: strfmt registry membership supplied as a relation; schema positions taken from the analyzer (validated by C12); projection; TLC/Json.", ref="7/C20"),
 "C14": dict(
   technique="TLC-enumerated decision tables (MC_Queries) + TLA+ spec of the query layer as functions of the document (Queries.tla: OpKeys, MediaFor, EffectiveSec/SecReqsFor/SecDefsFor, Required*); answers of all fourteen lookups recorded from the real analyzer for every method spelling x every path (existing or not) and every id (known or not), validated clause by clause by TLC (Trace_Queries)",
   text="model_checking (trace validation): on seeded random documents covering any subset of the seven methods, optional/duplicate/missing ids, document- and operation-level consumes/produces/security (incl. explicitly empty security) and on the fixtures, TLC checks that Operations, OperationFor (case-insensitive), OperationForName (unique ids / unknown ids), OperationIDs, OperationMethodPaths, AllPaths, ConsumesFor, ProducesFor, Required*, SecurityRequirementsFor, SecurityDefinitionsFor[Requirements] equal the specified functions of the projected document.",
   note="Trusted: projection, strings.ToUpper as the case-folding relation, TLC/Json. The decision tables (media types, security, method pairs/ids) are enumerated exhaustively by MC_Queries with precedence invariants on the specification and every enumerated document is replayed; plus 250 random documents (quick) and the fixtures.", ref="7/C14"),
 "C15": dict(
   technique="TLC-enumerated parameter-list decision table (MC_Queries family params: {inline, same (in,name), valid/dangling/non-parameter $ref}^<=2 at path and operation level, with/without operation, without paths) + TLA+ spec of effective parameters (Queries.tla: ParamList = path-level then operation-level, FoldParams override under in#GoName, RefKind valid/dangling/not-a-parameter, BadRefs); the four variants queried on the real analyzer with a recording callback under two policies (continue / stop) and the plain variants under recover; TLC validates results, reported errors and panics (Trace_Queries)",
   text="model_checking (trace validation): for every method x path (existing or not) and every unique / unknown operation id, TLC checks: Safe variants never panic, never return an unresolved placeholder, report exactly the bad $refs in order (continue policy) or a consistent subset (stop policy: any prefix-closed outcome accepted); plain variants panic iff a bad $ref exists and otherwise return the specified map; missing method/path/id and documents without paths give an empty result.",
   note="Trusted: swag.ToGoName supplied as a relation (names are drawn so that it is injective); projection; TLC/Json. The override key is (location, name) as the statement says; x-go-name is generated but must not matter.", ref="7/C15"),
 "C07": dict(
   technique="TLA+ trace predicate over recorded runs (Trace_Det.tla: all outcomes and SHA-256 of json.Marshal(document) equal across R repeated runs and P input copies with permuted JSON member order; Expand claimed only when HasCycle(bundle) of RefSem.tla is false); cases from the TLC-enumerated scenario family (incl. two imports on one base name, one target under two $ref spellings, sibling keys equal up to case, duplicate operation ids, names already taken by generated names) and the directed corpus; thorough tier: explicit TLA+ model of import collisions and their resolution (Dedup.tla) in which the range over Go's map is a NONDETERMINISTIC choice, explored by TLC over every order (MC_Dedup) with the invariant InvConfluent (every order ends on the document of the fixed-order composition) and InvNoError",
   text="model_checking (trace validation) of sampled schedules: each (bundle of W, option set) is flattened R=5 (thorough 16) times in worker processes (Go randomises every map range) and on P=2 (6) copies of the files whose JSON members are written in a permuted order; TLC decides equality of outcomes and hashes and computes the applicability of Expand from the $ref graph. Map-iteration schedules can only be sampled on the real code: a two-way order dependence is missed with probability 2^-(R-1) per case.",
   note="Trusted: Go's per-range map randomisation as schedule sampler; projection; TLC/Json. On the model the order independence of the de-duplication phase is decided exhaustively (MC_Dedup, thorough tier, mid-size family: ~50k states); the model is bound to the code by the CTX conformance pass of the flatten checks (every logged de-duplication step is an enabled model step with the model's parents).", ref="7/C07"),
 "C16": dict(
   technique="TLA+ process model of N readers on one shared index (Readers.tla: Query / Scribble, invariant ReadOnly; negative control with an aliasing getter must violate it) checked exhaustively by TLC; bound by traces of G goroutines on one real analyzed Spec under Go's race detector: every event [goroutine, seq, query, canonical answer] validated by TLC (Trace_Readers) against the sequential baseline answers, document serialized identically before/after",
   text="model_checking + race detection: TLC explores all interleavings of 3 readers issuing queries and scribbling on handed-out maps (and confirms the invariant is not vacuous on the aliasing variant); the harness, built with -race and GORACE=halt_on_error=1, releases G=8 (16) goroutines together on one Spec, each issuing a seeded random sequence of all public query methods and mutating every returned pattern/enum map; a detected race kills the worker and is attributed; TLC checks every recorded answer equals the sequential answer and per-goroutine sequence numbers are gap-free.",
   note="The absence of data races is decided by Go's race detector on the executed schedules (sampled, not exhaustive), not by TLC; writes into spare slice capacity of the document are visible to the race detector only. Trusted: canonicalisation of answers, TLC/Json.", ref="7/C16"),
})

def check_entry(pid, c):
    return {
        "property_id": pid,
        "quick_cmd": "bin/verif check %s --tier quick" % pid,
        "thorough_cmd": "bin/verif check %s --tier thorough" % pid,
        "evidence_file": "evidence/%s.json" % pid,
        "replay_cmd_template": "bin/verif replay {path}",
        "engine": "tlc+go-harness",
        "level_claimed": {"category": c.get("category", "model_checking"), "text": c["text"], "design_ref": "DESIGN.md section " + c["ref"]},
        "level_note": c["note"],
        "technique": c["technique"],
    }

hooks_commits = []
try:
    out = subprocess.run(["git", "-C", "/repo", "log", "--format=%h %s"], capture_output=True, text=True).stdout
    hooks_commits = [l.split()[0] for l in out.splitlines() if " verif hook" in l or l.split(" ", 1)[1].startswith("verif:")]
except Exception:
    pass

na_reasons = {}
manifest = {
    "version": 1,
    "setup_cmd": "bin/setup.sh",
    "hooks": {
        "guard": "verif",
        "enable": "go build -tags verif (the harness module replaces github.com/go-openapi/analysis => /repo and is rebuilt by bin/verif on every call)",
        "baseline_off_cmd": "bin/baseline_off.sh",
        "source_commits": hooks_commits,
        "add_only": True,
    },
    "engines": [
        {"name": "tlc+go-harness", "path": "spec/ (TLA+ modules, MC_*/Trace_* configurations) and harness/ (Go: generators, projection, workers, TLC driver)",
         "serves_properties": sorted(checks.keys()),
         "kind_free_text": "explicit TLA+ specification checked with TLC: exhaustive exploration of scenario families (MC_*), cases exported and replayed into the real code, traces recorded from the real code validated against the specification (Trace_*)"},
    ],
    "checks": [check_entry(p, checks[p]) for p in ids if p in checks],
    "notes": "Every verdict is TLC evaluating a predicate of the TLA+ specification on a state or answer produced by the real code built from /repo's working tree. See DESIGN.md.",
    "not_applicable": [{"property_id": p, "reason": na_reasons.get(p, "check not built yet (in progress, see DESIGN.md section 12)")} for p in ids if p not in checks],
}
json.dump(manifest, open(os.path.join(ROOT, "MANIFEST.json"), "w"), indent=1)
print("MANIFEST: %d checks, %d not_applicable" % (len(manifest["checks"]), len(manifest["not_applicable"])))
