package main

// C09: Flatten, New and Schema fail safe - crash attribution over W and W+, fault enumeration of document loads.

import (
	"encoding/json"
	"fmt"
	"os"
	"path/filepath"
	"strings"
	"time"
)

func init() { checks["C09"] = checkC09 }

type faultRec struct {
	Tid          string `json:"tid"`
	What         string `json:"what"`
	Kind         string `json:"kind"`
	Cont         bool   `json:"cont"`
	Crash        string `json:"crash"`
	OK           bool   `json:"ok"`
	Loads        int    `json:"loads"`
	FailAt       int    `json:"failAt"`
	LoadFailed   bool   `json:"loadFailed"`
	Unresolvable bool   `json:"unresolvable"`
}

type c09Run struct {
	c    *Case
	op   string
	args any
	rec  faultRec
}

func checkC09(prop, tier string, seed int64) int {
	rep := NewReport(prop, tier, seed)
	rep.Level = "fault_enumeration"
	rep.Rule = "Flatten (min/full/expand, with and without RemoveUnused / ContinueOnError) on generated bundles of W and of the wider class W+ " +
		"(arbitrary and nested anonymous pointers, back references, dangling remote/anonymous/local $refs, container recursion), on TLC-enumerated scenarios and on the repository fixtures, " +
		"each call in a worker sub-process with wall-clock limit and crash attribution (confirmed in a fresh process); " +
		"for a subset, every k in 1..L fails the k-th document load (L learnt from a clean run); analysis.New on every document; " +
		"non-trivial: the call completed in the worker (any outcome) - distinct by (bundle hash, options, fault position)"
	rep.Assumptions = []string{"spec.PathLoader (package variable of go-openapi/spec) is the only way documents are loaded", "a call that does not answer within the limit twice (10 s, then 20 s in a fresh process) is a hang",
		"local $refs to a missing definition are outside the claim (DESIGN.md C09 interpretation)"}
	scratch, err := scratchDir("c09")
	if err != nil {
		rep.HarnessErr = append(rep.HarnessErr, err.Error())
		return rep.Finish()
	}
	if os.Getenv("VERIF_KEEP") == "" {
		defer os.RemoveAll(scratch)
	}
	// the design-level model: exhaustive, with liveness
	mc, _, mcErr := runMC("MC_Faults", map[string]string{"MaxLoads": "5", "MaxRounds": "2"}, 5*time.Minute, 4)
	if mcErr != nil || mc == nil || !mc.OK {
		t := ""
		if mc != nil {
			t = mc.Tail
		}
		rep.HarnessErr = append(rep.HarnessErr, fmt.Sprintf("MC_Faults failed: %v\n%s", mcErr, t))
	} else {
		rep.Extra["exhaustive_model_run"] = map[string]any{"module": "MC_Faults", "distinct_states": mc.Distinct, "states_generated": mc.Generated,
			"invariants": []string{"FailSafe"}, "liveness": []string{"Terminates"}, "constants": mc.Constants}
		rep.States += mc.Distinct
		rep.Transitions += mc.Generated
	}

	nWP, nW, nFault := 80, 30, 25
	if tier == "thorough" {
		nWP, nW, nFault = 1200, 300, 300
	}
	runs := []*c09Run{}
	modes := []flattenOpts{{Minimal: true}, {}, {Expand: true}, {Minimal: true, RemoveUnused: true}, {RemoveUnused: true}, {Expand: true, RemoveUnused: true}}
	addFlatten := func(c *Case, o flattenOpts, kind string, unres bool, failAt int) {
		args := flattenArgs{Opts: o, Light: true, FailAt: failAt}
		runs = append(runs, &c09Run{c: c, op: "flatten", args: args,
			rec: faultRec{Tid: fmt.Sprintf("r%d", len(runs)), What: "flatten." + o.String(), Kind: kind, Cont: o.ContinueOnError, Unresolvable: unres, FailAt: failAt}})
	}
	// W+ bundles
	for i := 0; i < nWP; i++ {
		g := NewGen(seed*999983+int64(i)*13+3, flattenGenOpts(i))
		b := g.GenBundle()
		info := g.MutateWPlus(b) // (GenBundle already removed accidental pure-$ref cycles; the mutator may plant one on purpose)
		c := &Case{Tid: fmt.Sprintf("w%d", i), Source: "gen", Seed: seed*999983 + int64(i)*13 + 3, Bundle: b, Names: g.Names.ToConcrete, Note: strings.Join(info.Kinds, "+")}
		if err := c.Materialize(filepath.Join(scratch, "cases", c.Tid)); err != nil {
			rep.HarnessErr = append(rep.HarnessErr, err.Error())
			continue
		}
		for j, o := range modes {
			if j >= 3 && i%2 == 0 {
				continue
			}
			if i%5 == 0 && j < 3 {
				oc := o
				oc.ContinueOnError = true
				addFlatten(c, oc, "W+:"+c.Note, info.Unresolvable, 0)
			}
			addFlatten(c, o, "W+:"+c.Note, info.Unresolvable, 0)
		}
		runs = append(runs, &c09Run{c: c, op: "analyze", rec: faultRec{Tid: fmt.Sprintf("r%d", len(runs)), What: "new", Kind: "W+:" + c.Note}})
	}
	// W bundles (generated + enumerated scenarios): clean runs, then fault enumeration on a subset
	wcases := []*Case{}
	for i := 0; i < nW; i++ {
		g := NewGen(seed*1000003+int64(i)*17+5, flattenGenOpts(i))
		b := g.GenBundle()
		c := &Case{Tid: fmt.Sprintf("b%d", i), Source: "gen", Bundle: b, Names: g.Names.ToConcrete}
		if err := c.Materialize(filepath.Join(scratch, "cases", c.Tid)); err == nil {
			wcases = append(wcases, c)
		}
	}
	os.Setenv("VERIF_SCEN", fmt.Sprint(nW))
	sc, e := scenarioCases("flatten", "quick", seed, filepath.Join(scratch, "cases"))
	os.Unsetenv("VERIF_SCEN")
	rep.HarnessErr = append(rep.HarnessErr, e...)
	wcases = append(wcases, sc...)
	// sequences: a first Flatten succeeds, the auxiliary documents disappear, a second Flatten of the same root must fail
	nVanish := 12
	if tier == "thorough" {
		nVanish = 120
	}
	for i, c := range sc {
		if nVanish == 0 {
			break
		}
		if c.Bundle == nil || c.Bundle.Feat.NAux == 0 || c.Bundle.Feat.WPlus || !strings.Contains(",aux1,aux2,aux3,trans,selfrec,mutual,diamond,recdep,", ","+strings.SplitN(c.Note, ",", 2)[0]+",") {
			continue
		}
		cv := *c
		cv.Tid = c.Tid + "v"
		if err := cv.Materialize(filepath.Join(scratch, "cases", cv.Tid)); err != nil {
			continue
		}
		o := modes[i%3]
		args := flattenArgs{Opts: o, Light: true, Vanish: true}
		runs = append(runs, &c09Run{c: &cv, op: "flatten", args: args,
			rec: faultRec{Tid: fmt.Sprintf("r%d", len(runs)), What: "flatten." + o.String(), Kind: "W:vanish:" + c.Note, Unresolvable: true}})
		nVanish--
	}
	cleanIdx := map[string]int{}
	for i, c := range wcases {
		o := modes[i%3]
		cleanIdx[c.Tid+o.String()] = len(runs)
		addFlatten(c, o, "W:"+c.Note, false, 0)
	}
	// fixtures: Flatten and New on every loadable document of the repository
	for i, f := range fixtureFiles() {
		if tier != "thorough" && i%4 != int(seed%4) {
			continue
		}
		c := &Case{Tid: fmt.Sprintf("f%d", i), Source: "fixture", Dir: filepath.Dir(f), Files: map[string]string{"root": f}, Names: map[string]string{}, Note: f}
		for _, o := range modes[:3] {
			if o.Expand && strings.Contains(f, "/azure/") {
				continue // full expansion of these mutually referring documents is astronomically large (finite, but not within any limit)
			}
			addFlatten(c, o, "fixture", false, 0)
		}
		runs = append(runs, &c09Run{c: c, op: "analyze", rec: faultRec{Tid: fmt.Sprintf("r%d", len(runs)), What: "new", Kind: "fixture"}})
	}

	pool := &Pool{Exe: selfExe(), N: nWorkers(), Timeout: 10 * time.Second}
	exec := func(rs []*c09Run) {
		reqs := make([]*Req, len(rs))
		for i, r := range rs {
			rq := r.c.Req(r.op, r.args)
			rq.ID = r.rec.Tid
			reqs[i] = rq
		}
		resps := pool.Run(reqs)
		pool.Confirm(reqs, resps, 20*time.Second)
		for i, r := range rs {
			resp := resps[i]
			r.rec.Crash = "none"
			if resp.Crash != "" {
				r.rec.Crash = resp.Crash
				r.c.Note += " | " + firstLines(resp.Detail, 16)
				continue
			}
			if resp.Err != "" {
				// the document does not load at all: not a case of the property
				r.rec.What = "skip"
				continue
			}
			if r.op == "flatten" {
				var fr flattenRec
				json.Unmarshal(resp.Rec, &fr)
				r.rec.OK, r.rec.Loads, r.rec.LoadFailed = fr.OK, fr.Loads, fr.LoadFailed
			} else {
				r.rec.OK = true
			}
		}
	}
	exec(runs)
	// fault enumeration: every load position of the clean runs of the first nFault W cases
	faultRuns := []*c09Run{}
	cnt := 0
	for i, c := range wcases {
		if cnt >= nFault {
			break
		}
		o := modes[i%3]
		clean := runs[cleanIdx[c.Tid+o.String()]]
		if clean.rec.Crash != "none" || clean.rec.Loads == 0 {
			continue
		}
		cnt++
		for k := 1; k <= clean.rec.Loads; k++ {
			for _, cont := range []bool{false, true} {
				if cont && k > 1 {
					continue
				}
				oc := o
				oc.ContinueOnError = cont
				args := flattenArgs{Opts: oc, Light: true, FailAt: k}
				faultRuns = append(faultRuns, &c09Run{c: c, op: "flatten", args: args,
					rec: faultRec{Tid: fmt.Sprintf("k%d", len(faultRuns)), What: "flatten." + oc.String(), Kind: fmt.Sprintf("fault@%d/%d", k, clean.rec.Loads), Cont: cont, FailAt: k}})
			}
		}
	}
	exec(faultRuns)
	all := append(runs, faultRuns...)
	recs := []json.RawMessage{}
	for _, r := range all {
		if r.rec.What == "skip" {
			continue
		}
		b, _ := json.Marshal(r.rec)
		recs = append(recs, b)
	}
	tl, err := RunTraceValidation(scratch, "Trace_Faults", recs, 10*time.Minute)
	if err != nil || tl == nil || !tl.OK {
		rep.HarnessErr = append(rep.HarnessErr, fmt.Sprintf("Trace_Faults: %v", err))
		if tl != nil {
			rep.HarnessErr = append(rep.HarnessErr, tail(stripExports(tl.Out), 15))
		}
		return rep.Finish()
	}
	rep.States += tl.Distinct
	rep.Transitions += tl.Generated
	faultsInjected, loadFailures := 0, 0
	for _, r := range all {
		if r.rec.What == "skip" {
			continue
		}
		v, ok := tl.Verdicts[r.rec.Tid]
		if !ok {
			rep.HarnessErr = append(rep.HarnessErr, "no verdict for "+r.rec.Tid)
			continue
		}
		rep.Evaluations++
		if r.rec.FailAt > 0 {
			faultsInjected++
			if r.rec.LoadFailed {
				loadFailures++
			}
		}
		h := r.c.Tid
		if r.c.Bundle != nil {
			h = r.c.Bundle.Docs["root"].Hash()
		}
		rep.Distinct[h+r.rec.What+fmt.Sprint(r.rec.FailAt)] = true
		if len(rep.Samples) < 4 && (r.rec.FailAt > 0 || strings.HasPrefix(r.rec.Kind, "W+")) {
			rep.Samples = append(rep.Samples, r.rec)
		}
		if v["C09"] {
			rep.TracesOK++
			continue
		}
		sig := "C09:"
		if r.rec.Crash != "none" {
			sig += r.rec.Crash + "." + r.rec.What + ":" + crashSite(r.c.Note)
		} else {
			sig += "silent-success." + r.rec.What + ":" + strings.SplitN(r.rec.Kind, "@", 2)[0]
		}
		replay := r.c.SaveReplay(prop, r.op, r.args, map[string]string{"record.json": mustJSON(r.rec), "detail.txt": r.c.Note})
		rep.AddViolation(Violation{Prop: prop, Tid: r.rec.Tid, Sig: sig, What: fmt.Sprintf("%s kind=%s crash=%s ok=%v loadFailed=%v unresolvable=%v", r.rec.What, r.rec.Kind, r.rec.Crash, r.rec.OK, r.rec.LoadFailed, r.rec.Unresolvable), Replay: replay})
	}
	rep.Extra["faults_injected"] = faultsInjected
	rep.Extra["faults_hit_a_load"] = loadFailures
	rep.Extra["runs"] = len(all)
	return rep.Finish()
}

func mustJSON(v any) string {
	b, _ := json.MarshalIndent(v, "", " ")
	return string(b)
}

// crashSite extracts the first frame of the code under test from a panic / fatal detail.
func crashSite(detail string) string {
	for _, l := range strings.Split(detail, "\n") {
		l = strings.TrimSpace(l)
		if strings.HasPrefix(l, "github.com/go-openapi/analysis") {
			if i := strings.Index(l, "("); i > 0 {
				l = l[:i]
			}
			return strings.TrimPrefix(l, "github.com/go-openapi/analysis")
		}
	}
	if strings.Contains(detail, "stack overflow") || strings.Contains(detail, "goroutine stack exceeds") {
		return "stack-overflow"
	}
	return "unknown-site"
}
