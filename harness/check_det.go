package main

// C07: determinism of Flatten - repeated runs and permuted insertion histories, hashes compared by TLC (Trace_Det).

import (
	"bytes"
	"encoding/json"
	"fmt"
	"math/rand"
	"os"
	"path/filepath"
	"sort"
	"strings"
	"time"
)

func init() { checks["C07"] = checkDet }

// marshalPermuted writes v with the members of every object in a random order.
func marshalPermuted(v any, r *rand.Rand, buf *bytes.Buffer) {
	switch x := v.(type) {
	case map[string]any:
		keys := make([]string, 0, len(x))
		for k := range x {
			keys = append(keys, k)
		}
		sort.Strings(keys)
		r.Shuffle(len(keys), func(i, j int) { keys[i], keys[j] = keys[j], keys[i] })
		buf.WriteByte('{')
		for i, k := range keys {
			if i > 0 {
				buf.WriteByte(',')
			}
			kb, _ := json.Marshal(k)
			buf.Write(kb)
			buf.WriteByte(':')
			marshalPermuted(x[k], r, buf)
		}
		buf.WriteByte('}')
	case []any:
		buf.WriteByte('[')
		for i, e := range x {
			if i > 0 {
				buf.WriteByte(',')
			}
			marshalPermuted(e, r, buf)
		}
		buf.WriteByte(']')
	default:
		b, _ := json.Marshal(x)
		buf.Write(b)
	}
}

// permutedCopy writes a copy of the case's files under dir with permuted member order; returns the new file table.
func permutedCopy(c *Case, dir string, r *rand.Rand) (map[string]string, error) {
	out := map[string]string{}
	for id, p := range c.Files {
		rel, err := filepath.Rel(c.Dir, p)
		if err != nil {
			return nil, err
		}
		b, err := os.ReadFile(p)
		if err != nil {
			continue // ghost files
		}
		v, err := decodeJSON(b)
		if err != nil {
			return nil, err
		}
		var buf bytes.Buffer
		marshalPermuted(map[string]any(v), r, &buf)
		dst := filepath.Join(dir, rel)
		os.MkdirAll(filepath.Dir(dst), 0o755)
		if err := os.WriteFile(dst, buf.Bytes(), 0o644); err != nil {
			return nil, err
		}
		out[id] = dst
	}
	return out, nil
}

type detRec struct {
	Tid    string           `json:"tid"`
	Mode   string           `json:"mode"`
	RU     bool             `json:"ru"`
	Bundle map[string]*Node `json:"bundle"`
	Hashes []string         `json:"hashes"`
	OKs    []bool           `json:"oks"`
}

func checkDet(prop, tier string, seed int64) int {
	rep := NewReport(prop, tier, seed)
	rep.Rule = "bundles of W: directed corpus + seeded sample of the TLC-enumerated scenario family + seeded random bundles (collisions, several imports, shared body parameters), x {min, full, min+ru, full+ru, expand}; " +
		"each (bundle, options) is flattened R times on the same files (every run in a process whose map iteration orders are fresh) and on P copies of the files with permuted JSON member order; " +
		"non-trivial: applicable (expand only without reference cycle) and Flatten rewrote the document; distinct by (bundle hash, options). Map-iteration schedules are SAMPLED (probability of missing a two-way order dependence after R runs is 2^-(R-1))"
	rep.Assumptions = []string{"Go randomises map iteration per range statement, so repeated runs sample schedules", "projection; TLC, Json module"}
	scratch, err := scratchDir("det")
	if err != nil {
		rep.HarnessErr = append(rep.HarnessErr, err.Error())
		return rep.Finish()
	}
	if os.Getenv("VERIF_KEEP") == "" {
		defer os.RemoveAll(scratch)
	}
	R, P, nRand, nScen := 5, 2, 25, 60
	if tier == "thorough" {
		R, P, nRand, nScen = 16, 6, 300, 1500
	}
	// design level: the model of import collisions and their resolution (Dedup.tla) explored over EVERY order of the map ranges;
	// the invariant InvConfluent says all of them end on the same document (thorough tier: the exploration takes minutes)
	if tier == "thorough" || os.Getenv("VERIF_DEDUP") != "" {
		// (the configuration of spec/MC_Dedup.cfg: one target kind, 2 x 2 holders, 2 collision patterns, every option set and tie order:
		// about 7 300 states; adding the recursive target kind multiplies the cost by ten, see DESIGN 4.45)
		consts := map[string]string{"TKinds": `{"aux1"}`, "HKinds": `{"prop", "nested"}`, "H2Kinds": `{"none", "code"}`,
			"CKinds": `{"exact", "twoimports"}`, "Export": "FALSE"}
		mc, _, mcErr := runMC("MC_Dedup", consts, 45*time.Minute, nWorkers())
		if mcErr != nil || mc == nil || !mc.OK {
			t := ""
			if mc != nil {
				t = "invariant " + mc.InvViolated + "\n" + mc.Tail
			}
			rep.HarnessErr = append(rep.HarnessErr, fmt.Sprintf("MC_Dedup (collision model) failed: %v %s", mcErr, t))
		} else {
			rep.Extra["exhaustive_model_run"] = map[string]any{"module": "MC_Dedup", "distinct_states": mc.Distinct, "states_generated": mc.Generated,
				"invariants": []string{"InvNoError", "InvBounded", "InvC01", "InvC02", "InvC03", "InvC05", "InvC06", "InvConfluent"}, "constants": mc.Constants}
			rep.States += mc.Distinct
			rep.Transitions += mc.Generated
		}
	}
	cases := []*Case{}
	for i := 0; i < nRand; i++ {
		o := flattenGenOpts(i*3 + 0) // i*3: collisions on
		o.Collisions = true
		g := NewGen(seed*1000211+int64(i), o)
		b := g.GenBundle()
		c := &Case{Tid: fmt.Sprintf("b%d", i), Source: "gen", Bundle: b, Names: g.Names.ToConcrete, RefStyle: 2}
		if err := c.Materialize(filepath.Join(scratch, "cases", c.Tid)); err == nil {
			cases = append(cases, c)
		}
	}
	os.Setenv("VERIF_SCEN", fmt.Sprint(nScen))
	sc, e := scenarioCases("flatten", "quick", seed, filepath.Join(scratch, "cases"))
	os.Unsetenv("VERIF_SCEN")
	rep.HarnessErr = append(rep.HarnessErr, e...)
	cases = append(cases, sc...)
	optSets := []flattenOpts{{Minimal: true}, {}, {Minimal: true, RemoveUnused: true}, {RemoveUnused: true}, {Expand: true}}
	type unit struct {
		c    *Case
		o    flattenOpts
		reqs []*Req
		tid  string
	}
	units := []*unit{}
	allReqs := []*Req{}
	r := rand.New(rand.NewSource(seed))
	for ci, c := range cases {
		perms := []map[string]string{}
		for p := 0; p < P; p++ {
			f, err := permutedCopy(c, filepath.Join(scratch, "perm", fmt.Sprintf("%s-%d", c.Tid, p)), r)
			if err != nil {
				rep.HarnessErr = append(rep.HarnessErr, err.Error())
				continue
			}
			perms = append(perms, f)
		}
		for oi, o := range optSets {
			if !inW(c.Bundle.Feat, o) {
				continue
			}
			if tier != "thorough" && (ci+oi)%2 == 1 && c.Source == "tlc" && !corpusKeys("flatten.txt")[c.Note] {
				continue
			}
			u := &unit{c: c, o: o, tid: fmt.Sprintf("%so%d", c.Tid, oi)}
			for k := 0; k < R+len(perms); k++ {
				args := flattenArgs{Opts: o, Light: k > 0, InW: true}
				files := c.Files
				if k >= R {
					files = perms[k-R]
				}
				raw, _ := json.Marshal(args)
				rq := &Req{ID: fmt.Sprintf("%s.%d", u.tid, k), Op: "flatten", Dir: c.Dir, Files: files, Names: c.Names, Args: raw}
				u.reqs = append(u.reqs, rq)
				allReqs = append(allReqs, rq)
			}
			units = append(units, u)
		}
	}
	// shuffle so that the runs of one unit land on different worker processes
	idx := r.Perm(len(allReqs))
	shuffled := make([]*Req, len(allReqs))
	for i, j := range idx {
		shuffled[i] = allReqs[j]
	}
	pool := &Pool{Exe: selfExe(), N: nWorkers(), Timeout: 15 * time.Second}
	resps := pool.Run(shuffled)
	byID := map[string]*Resp{}
	for i, rq := range shuffled {
		byID[rq.ID] = resps[i]
	}
	recs := []json.RawMessage{}
	errTexts := map[string]string{}
	for _, u := range units {
		rec := detRec{Tid: u.tid, Mode: u.o.Mode(), RU: u.o.RemoveUnused, Bundle: map[string]*Node{"root": NewNode()}}
		bad := false
		for k, rq := range u.reqs {
			resp := byID[rq.ID]
			if resp == nil || resp.Err != "" {
				bad = true
				break
			}
			if resp.Crash != "" {
				rec.OKs = append(rec.OKs, false)
				rec.Hashes = append(rec.Hashes, "crash:"+resp.Crash)
				continue
			}
			var fr flattenRec
			json.Unmarshal(resp.Rec, &fr)
			if k == 0 {
				rec.Bundle = fr.Bundle
			}
			rec.OKs = append(rec.OKs, fr.OK)
			if fr.OK {
				rec.Hashes = append(rec.Hashes, fr.Hash)
			} else {
				rec.Hashes = append(rec.Hashes, "error")
				errTexts[u.tid] = fr.Err
			}
		}
		if bad {
			rep.HarnessErr = append(rep.HarnessErr, "run failed for "+u.tid)
			continue
		}
		b, _ := json.Marshal(rec)
		recs = append(recs, b)
	}
	tl, err := RunTraceValidation(scratch, "Trace_Det", recs, 30*time.Minute)
	if err != nil || tl == nil || !tl.OK {
		rep.HarnessErr = append(rep.HarnessErr, fmt.Sprintf("Trace_Det: %v", err))
		if tl != nil {
			rep.HarnessErr = append(rep.HarnessErr, tail(stripExports(tl.Out), 25))
		}
		return rep.Finish()
	}
	rep.States, rep.Transitions = tl.Distinct, tl.Generated
	diags := map[string][]string{}
	for _, d := range tl.Diags {
		tid, _, _, _ := diagShape(d)
		diags[tid] = append(diags[tid], d)
	}
	runsTotal := 0
	for _, u := range units {
		st := tl.Stats[u.tid]
		if len(st) < 3 {
			continue
		}
		runsTotal += st[0]
		if st[2] == 0 {
			continue // expand on a cyclic bundle: not claimed
		}
		v, ok := tl.Verdicts[u.tid]
		if !ok {
			rep.HarnessErr = append(rep.HarnessErr, "no verdict for "+u.tid)
			continue
		}
		rep.Evaluations++
		rep.Distinct[u.c.Bundle.Docs["root"].Hash()+u.o.String()] = true
		if len(rep.Samples) < 3 {
			rep.Samples = append(rep.Samples, map[string]any{"tid": u.tid, "opts": u.o.String(), "scenario": u.c.Note, "runs": st[0], "distinct_outputs": st[1]})
		}
		if v[prop] {
			rep.TracesOK++
			continue
		}
		sig, what := prop+":unclassified", "verdict false"
		if ds := diags[u.tid]; len(ds) > 0 {
			_, _, clause, _ := diagShape(ds[0])
			sig = prop + ":" + clause + ":" + scenFeature(u.c)
			what = ds[0]
			if strings.HasPrefix(clause, "outcome-differs") {
				sig += ":" + normErr(errTexts[u.tid])
				what += " error=" + errTexts[u.tid]
			}
		}
		replay := u.c.SaveReplay(prop, "flatten", flattenArgs{Opts: u.o, Light: true}, map[string]string{"diag.txt": strings.Join(diags[u.tid], "\n")})
		rep.AddViolation(Violation{Prop: prop, Tid: u.tid, Sig: sig, What: "[scenario " + u.c.Note + " opts " + u.o.String() + "] " + what, Replay: replay})
	}
	rep.Extra["flatten_runs"] = runsTotal
	rep.Extra["repeats_R"] = R
	rep.Extra["permutations_P"] = P
	return rep.Finish()
}
