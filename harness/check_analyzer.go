package main

// C11 / C12 / C13: the analyzer's indexes against Analyzer.tla (trace validation of recorded answers).

import (
	"encoding/json"
	"fmt"
	"os"
	"path/filepath"
	"strings"
	"time"
)

func init() {
	checks["C11"] = checkAnalyzer
	checks["C12"] = checkAnalyzer
	checks["C13"] = checkAnalyzer
}

type tierSize struct{ gen, fixtures int }

func analyzerGenOpts(i int) GenOpts {
	o := GenOpts{MaxDepth: 2 + i%3, NDefs: 4, NAux: 0, AllKeywords: true, Shared: true, Decor: true, Dangling: true}
	if i%5 == 0 {
		o.PlainNames = true
	}
	if i%7 == 0 {
		o.NonBodySchema = true
	}
	return o
}

// buildAnalyzerCases produces the generated + enumerated + fixture cases for the analyzer campaign.
func buildAnalyzerCases(tier string, seed int64, scratch string) ([]*Case, []string) {
	ngen := 150
	if tier == "thorough" {
		ngen = 2500
	}
	cases := []*Case{}
	errs := []string{}
	for i := 0; i < ngen; i++ {
		g := NewGen(seed*1000003+int64(i), analyzerGenOpts(i))
		b := g.GenBundle()
		c := &Case{Tid: fmt.Sprintf("g%d", i), Source: "gen", Seed: seed*1000003 + int64(i), Bundle: b, Names: g.Names.ToConcrete, RefStyle: i % 2}
		if err := c.Materialize(filepath.Join(scratch, c.Tid)); err != nil {
			errs = append(errs, err.Error())
			continue
		}
		if err := c.RoundTrip(); err != nil {
			errs = append(errs, err.Error())
			continue
		}
		cases = append(cases, c)
	}
	// TLC-enumerated scenario documents (direction B)
	sc, e := scenarioCases("analyzer", tier, seed, scratch)
	errs = append(errs, e...)
	cases = append(cases, sc...)
	// the repository's own fixtures (S3)
	for i, f := range fixtureFiles() {
		if tier != "thorough" && i%3 != int(seed%3) {
			continue
		}
		cases = append(cases, &Case{Tid: fmt.Sprintf("f%d", i), Source: "fixture", Dir: filepath.Dir(f), Files: map[string]string{"root": f}, Names: map[string]string{}, Note: f})
	}
	return cases, errs
}

type analyzerCampaign struct {
	cases   []*Case
	resps   []*Resp
	tlc     *TLCResult
	scratch string
	errs    []string
}

func runAnalyzerCampaign(tier string, seed int64) (*analyzerCampaign, error) {
	scratch, err := scratchDir("analyzer")
	if err != nil {
		return nil, err
	}
	ac := &analyzerCampaign{scratch: scratch}
	ac.cases, ac.errs = buildAnalyzerCases(tier, seed, filepath.Join(scratch, "cases"))
	reqs := make([]*Req, len(ac.cases))
	for i, c := range ac.cases {
		if c.Source == "fixture" {
			reqs[i] = c.Req("analyze", nil)
			continue
		}
		// the analyzer is asked again after a Flatten (alternately Minimal and full+RemoveUnused) of its document
		reqs[i] = c.Req("analyze", analyzeArgs{ThenFlatten: true, Full: i%2 == 1})
	}
	pool := &Pool{Exe: selfExe(), N: nWorkers(), Timeout: 20 * time.Second}
	ac.resps = pool.Run(reqs)
	recs := []json.RawMessage{}
	for _, r := range ac.resps {
		if r.Err == "" && r.Crash == "" && r.Rec != nil {
			var full analyzerRec
			if json.Unmarshal(r.Rec, &full) == nil && full.After != nil {
				aft := full.After
				full.After = nil
				if b1, e1 := json.Marshal(&full); e1 == nil {
					if b2, e2 := json.Marshal(aft); e2 == nil {
						recs = append(recs, b1, b2)
						continue
					}
				}
			}
			recs = append(recs, r.Rec)
		}
	}
	if len(recs) == 0 {
		return ac, fmt.Errorf("no record to validate")
	}
	to := 10 * time.Minute
	if tier == "thorough" {
		to = 40 * time.Minute
	}
	ac.tlc, err = RunTraceValidation(scratch, "Trace_Analyzer", recs, to)
	return ac, err
}

func selfExe() string {
	exe, err := os.Executable()
	if err != nil {
		return os.Args[0]
	}
	return exe
}

func checkAnalyzer(prop, tier string, seed int64) int {
	rep := NewReport(prop, tier, seed)
	rep.Rule = "documents: seeded random generator over the full schema grammar and name alphabet + TLC-enumerated plant scenarios + repository fixtures; " +
		"a case is non-trivial when the index under test is non-empty for it; distinct by hash of the abstract document"
	rep.Assumptions = []string{"projection JSON->tree and $ref/key parsing in the harness (round-trip self-checked)",
		"TLC, SANY and the CommunityModules Json module", "go-openapi/spec unmarshalling defines the normal form of the document"}
	ac, err := runAnalyzerCampaign(tier, seed)
	if ac != nil && os.Getenv("VERIF_KEEP") == "" {
		defer os.RemoveAll(ac.scratch)
	}
	if err != nil {
		rep.HarnessErr = append(rep.HarnessErr, err.Error())
		if ac != nil && ac.tlc != nil {
			rep.HarnessErr = append(rep.HarnessErr, tail(ac.tlc.Out, 15))
		}
		return rep.Finish()
	}
	rep.HarnessErr = append(rep.HarnessErr, ac.errs...)
	if !ac.tlc.OK {
		rep.HarnessErr = append(rep.HarnessErr, "TLC did not complete:\n"+tail(ac.tlc.Out, 25))
	}
	rep.States, rep.Transitions = ac.tlc.Distinct, ac.tlc.Generated
	if mc := lastMC["analyzer"]; mc != nil {
		rep.States += mc.Distinct
		rep.Transitions += mc.Generated
		rep.Extra["exhaustive_model_run"] = map[string]any{"module": mc.Module, "constants": mc.Constants, "distinct_states": mc.Distinct,
			"states_generated": mc.Generated, "depth": mc.Depth, "documents_exported": mc.Exported, "wall_s": mc.WallS,
			"invariants": []string{"PlantFound", "KindsPartition"}}
	}
	rep.Extra["trace_validation"] = map[string]any{"module": "Trace_Analyzer", "records": ac.tlc.Distinct}
	diagsByTid := map[string][]string{}
	for _, d := range ac.tlc.Diags {
		tid, p, _, _ := diagShape(d)
		if p == prop {
			diagsByTid[tid] = append(diagsByTid[tid], d)
		}
	}
	crashes, loadErrs, afterFlatten := 0, 0, 0
	for i, c := range ac.cases {
		r := ac.resps[i]
		if r.Crash != "" {
			crashes++
			rep.Notes = append(rep.Notes, fmt.Sprintf("analysis.New crashed (%s) on %s %s: covered by C09", r.Crash, c.Tid, c.Note))
			continue
		}
		if r.Err != "" {
			if c.Source == "fixture" {
				loadErrs++ // not a loadable document
				continue
			}
			rep.HarnessErr = append(rep.HarnessErr, c.Tid+": "+r.Err)
			continue
		}
		v, ok := ac.tlc.Verdicts[c.Tid]
		if !ok {
			rep.HarnessErr = append(rep.HarnessErr, "no verdict for "+c.Tid)
			continue
		}
		rep.Evaluations++
		if sane, has := v["SANE"]; has && !sane {
			rep.HarnessErr = append(rep.HarnessErr, "grammar sanity failed on "+c.Tid)
		}
		st := ac.tlc.Stats[c.Tid]
		nontrivial := false
		if len(st) >= 5 {
			switch prop {
			case "C11":
				nontrivial = st[1] > 0
			case "C12":
				nontrivial = st[2] > 0
			case "C13":
				nontrivial = st[3]+st[4] > 0
			}
		}
		if nontrivial {
			var rec analyzerRec
			json.Unmarshal(r.Rec, &rec)
			rep.Distinct[rec.Doc.Hash()] = true
			if len(rep.Samples) < 3 {
				rep.Samples = append(rep.Samples, map[string]any{"tid": c.Tid, "source": c.Source, "note": c.Note, "nodes": st[0], "refs": st[1], "schemas": st[2], "patterns": st[3], "enums": st[4], "names": sampleNames(r.Names)})
			}
		}
		tidBad := c.Tid
		if v2, has := ac.tlc.Verdicts[c.Tid+"~f"]; has {
			rep.Evaluations++
			afterFlatten++
			if v[prop] && !v2[prop] {
				tidBad = c.Tid + "~f" // sound right after New, not any more after Flatten
			} else if v2[prop] {
				rep.TracesOK++
			}
		}
		if v[prop] && tidBad == c.Tid {
			rep.TracesOK++
			continue
		}
		sig, what := prop+":unclassified", "verdict false"
		if tidBad != c.Tid {
			sig = prop + ":after-flatten:unclassified"
			if ds := diagsByTid[tidBad]; len(ds) > 0 {
				_, _, clause, shape := diagShape(ds[0])
				sig = prop + ":after-flatten:" + clause + ":" + shape
				what = "the analyzer handed to Flatten, asked again: " + ds[0]
			}
			replay := c.SaveReplay(prop, "analyze", analyzeArgs{ThenFlatten: true, Full: i%2 == 1}, map[string]string{"diag.txt": strings.Join(diagsByTid[tidBad], "\n"), "record.json": string(r.Rec)})
			rep.AddViolation(Violation{Prop: prop, Tid: tidBad, Sig: sig, What: what, Replay: replay})
			continue
		}
		if ds := diagsByTid[c.Tid]; len(ds) > 0 {
			_, _, clause, shape := diagShape(ds[0])
			sig = prop + ":" + clause + ":" + shape
			what = ds[0]
		}
		replay := c.SaveReplay(prop, "analyze", nil, map[string]string{"diag.txt": strings.Join(diagsByTid[c.Tid], "\n"), "record.json": string(r.Rec)})
		rep.AddViolation(Violation{Prop: prop, Tid: c.Tid, Sig: sig, What: what, Replay: replay})
	}
	rep.Extra["documents_asked_again_after_flatten"] = afterFlatten
	rep.Extra["crashes_seen"] = crashes
	rep.Extra["fixtures_not_loadable"] = loadErrs
	rep.Extra["tlc_wall_s"] = ac.tlc.WallS
	return rep.Finish()
}

func sampleNames(m map[string]string) []string {
	out := []string{}
	for _, v := range m {
		if !safeKeyRe.MatchString(v) && len(out) < 6 {
			out = append(out, v)
		}
	}
	return out
}
