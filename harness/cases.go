package main

// Cases: an abstract bundle + name table, materialised as files on disk.

import (
	"encoding/json"
	"fmt"
	"os"
	"path/filepath"
	"regexp"
	"sort"
	"strings"
)

type Case struct {
	Tid      string            `json:"tid"`
	Source   string            `json:"source"` // gen | tlc | fixture | corpus
	Seed     int64             `json:"seed"`
	Bundle   *Bundle           `json:"bundle,omitempty"`
	Names    map[string]string `json:"names"`
	RefStyle int               `json:"refStyle"`
	Dir      string            `json:"dir"`
	Files    map[string]string `json:"files"` // docId -> abs path
	Note     string            `json:"note,omitempty"`
}

// Materialize writes the bundle's documents below dir and fills c.Files.
func (c *Case) Materialize(dir string) error {
	c.Dir = dir
	c.Files = map[string]string{}
	for id, rel := range c.Bundle.Files {
		c.Files[id] = filepath.Join(dir, rel)
	}
	nt := NewNameTable()
	for p, cc := range c.Names {
		nt.Bind(p, cc)
	}
	cz := &Concretizer{Names: nt, Files: &FileTable{Paths: c.Files}, RefStyle: c.RefStyle}
	ids := make([]string, 0, len(c.Bundle.Docs))
	for id := range c.Bundle.Docs {
		ids = append(ids, id)
	}
	sort.Strings(ids)
	for _, id := range ids {
		doc := c.Bundle.Docs[id]
		v := cz.Concretize(doc, id)
		b, err := json.MarshalIndent(v, "", " ")
		if err != nil {
			return err
		}
		if err := os.MkdirAll(filepath.Dir(c.Files[id]), 0o755); err != nil {
			return err
		}
		if err := os.WriteFile(c.Files[id], b, 0o644); err != nil {
			return err
		}
	}
	return nil
}

// RoundTrip checks Project(Concretize(a)) = a on the files just written (harness self-check).
func (c *Case) RoundTrip() error {
	nt := NewNameTable()
	for p, cc := range c.Names {
		nt.Bind(p, cc)
	}
	pj := &Projector{Names: nt, Files: &FileTable{Paths: c.Files}}
	for id, doc := range c.Bundle.Docs {
		b, err := os.ReadFile(c.Files[id])
		if err != nil {
			return err
		}
		n, err := pj.ProjectBytes(b, id)
		if err != nil {
			return err
		}
		if !n.Equal(doc) {
			x, _ := json.Marshal(n)
			y, _ := json.Marshal(doc)
			return fmt.Errorf("projection round trip differs for %s/%s:\n got %s\nwant %s", c.Tid, id, x, y)
		}
	}
	return nil
}

func (c *Case) Req(op string, args any) *Req {
	var raw json.RawMessage
	if args != nil {
		raw, _ = json.Marshal(args)
	}
	return &Req{ID: c.Tid, Op: op, Dir: c.Dir, Files: c.Files, Names: c.Names, Args: raw}
}

// SaveReplay copies the case (files + meta) to replays/<prop>/<tid-hash>/ and returns that path.
func (c *Case) SaveReplay(prop string, op string, args any, extra map[string]string) string {
	h := hash8(c.Tid + fmt.Sprint(c.Seed) + c.Source + fmt.Sprint(args))
	dst := filepath.Join(verifRoot, "replays", prop, c.Tid+"-"+h)
	os.RemoveAll(dst)
	os.MkdirAll(dst, 0o755)
	files := map[string]string{}
	for id, p := range c.Files {
		rel, err := filepath.Rel(c.Dir, p)
		if err != nil || strings.HasPrefix(rel, "..") {
			rel = filepath.Join("ext", id+filepath.Ext(p))
		}
		b, err := os.ReadFile(p)
		if err == nil {
			os.MkdirAll(filepath.Dir(filepath.Join(dst, "files", rel)), 0o755)
			os.WriteFile(filepath.Join(dst, "files", rel), b, 0o644)
		}
		files[id] = rel
	}
	// fixtures may reference sibling files: copy the whole directory of the root for fixture cases
	if c.Source == "fixture" {
		copyDir(filepath.Dir(c.Files["root"]), filepath.Join(dst, "files", filepath.Dir(files["root"])))
	}
	var raw json.RawMessage
	if args != nil {
		raw, _ = json.Marshal(args)
	}
	meta := map[string]any{"prop": prop, "op": op, "args": raw, "tid": c.Tid, "seed": c.Seed, "source": c.Source,
		"names": c.Names, "files": files, "note": c.Note}
	b, _ := json.MarshalIndent(meta, "", " ")
	os.WriteFile(filepath.Join(dst, "case.json"), b, 0o644)
	for k, v := range extra {
		os.WriteFile(filepath.Join(dst, k), []byte(v), 0o644)
	}
	return dst
}

func copyDir(src, dst string) {
	filepath.Walk(src, func(p string, info os.FileInfo, err error) error {
		if err != nil || info.IsDir() {
			return nil
		}
		rel, _ := filepath.Rel(src, p)
		if info.Size() > 2<<20 {
			return nil
		}
		b, e := os.ReadFile(p)
		if e == nil {
			os.MkdirAll(filepath.Dir(filepath.Join(dst, rel)), 0o755)
			os.WriteFile(filepath.Join(dst, rel), b, 0o644)
		}
		return nil
	})
}

// fixtureCases lists documents of the repository's fixtures directory that load as Swagger documents.
func fixtureFiles() []string {
	out := []string{}
	filepath.Walk(repoDir()+"/fixtures", func(p string, info os.FileInfo, err error) error {
		if err != nil || info.IsDir() {
			return nil
		}
		ext := filepath.Ext(p)
		if ext != ".json" && ext != ".yml" && ext != ".yaml" {
			return nil
		}
		if strings.Contains(p, "/expected/") {
			return nil
		}
		out = append(out, p)
		return nil
	})
	sort.Strings(out)
	return out
}

func repoDir() string {
	if v := os.Getenv("VERIF_REPO"); v != "" {
		return v
	}
	return "/repo"
}

var reEmptyScopes = regexp.MustCompile(`("k[123]"): \[\]`)

// NullScopes rewrites, in the root file, every other empty scopes list of a security requirement as JSON null
// (both spell "no scope"; the abstract document is the same).
func (c *Case) NullScopes() {
	p := c.Files["root"]
	b, err := os.ReadFile(p)
	if err != nil {
		return
	}
	i := 0
	out := reEmptyScopes.ReplaceAllFunc(b, func(m []byte) []byte {
		i++
		if i%2 == 1 {
			return []byte(strings.Replace(string(m), "[]", "null", 1))
		}
		return m
	})
	os.WriteFile(p, out, 0o644)
}
