package main

// Verdict policy, known findings, evidence files (DESIGN.md section 6 and 10).

import (
	"bufio"
	"encoding/json"
	"fmt"
	"os"
	"path/filepath"
	"regexp"
	"sort"
	"strings"
	"time"
)

type Violation struct {
	Prop   string `json:"prop"`
	Tid    string `json:"tid"`
	Sig    string `json:"sig"`
	What   string `json:"what"`
	Replay string `json:"replay"`
}

type Report struct {
	Prop        string
	Tier        string
	Seed        int64
	Level       string
	Start       time.Time
	Evaluations int
	Distinct    map[string]bool // hashes of distinct non-trivial cases
	Rule        string
	Samples     []any
	States      int
	Transitions int
	TracesOK    int
	Violations  []Violation
	Known       []Violation
	Notes       []string
	Extra       map[string]any
	Assumptions []string
	Exhaustive  bool
	HarnessErr  []string
}

func NewReport(prop, tier string, seed int64) *Report {
	return &Report{Prop: prop, Tier: tier, Seed: seed, Level: "model_checking", Start: time.Now(), Distinct: map[string]bool{}, Extra: map[string]any{}}
}

type knownFinding struct {
	Prop, Sig, Text string
}

var reFinding = regexp.MustCompile(`^finding:\s+property=(\S+)\s+sig=(\S+)\s*(.*)$`)

func loadKnownFindings() []knownFinding {
	f, err := os.Open(filepath.Join(verifRoot, "KNOWN_FINDINGS.txt"))
	if err != nil {
		return nil
	}
	defer f.Close()
	out := []knownFinding{}
	sc := bufio.NewScanner(f)
	for sc.Scan() {
		if m := reFinding.FindStringSubmatch(strings.TrimSpace(sc.Text())); m != nil {
			out = append(out, knownFinding{m[1], m[2], m[3]})
		}
	}
	return out
}

// sigMatches: a known-finding signature may end with '*' (prefix match).
func sigMatches(pattern, sig string) bool {
	if strings.HasSuffix(pattern, "*") {
		return strings.HasPrefix(sig, strings.TrimSuffix(pattern, "*"))
	}
	return pattern == sig
}

// AddViolation classifies a failed verdict as known finding or violation.
func (r *Report) AddViolation(v Violation) {
	for _, k := range loadKnownFindings() {
		if k.Prop == v.Prop && sigMatches(k.Sig, v.Sig) {
			r.Known = append(r.Known, v)
			return
		}
	}
	r.Violations = append(r.Violations, v)
}

// Finish prints the verdict lines, writes the evidence file, and returns the exit code.
func (r *Report) Finish() int {
	wall := time.Since(r.Start).Seconds()
	// de-duplicate known findings by signature for printing
	seen := map[string]bool{}
	for _, k := range r.Known {
		if !seen[k.Sig] {
			seen[k.Sig] = true
			fmt.Printf("KNOWN-FINDING: property=%s sig=%s %s (e.g. replay=%s)\n", k.Prop, k.Sig, k.What, k.Replay)
		}
	}
	for _, n := range r.Notes {
		fmt.Println("NOTE " + n)
	}
	sort.Slice(r.Violations, func(i, j int) bool { return r.Violations[i].Sig < r.Violations[j].Sig })
	seenV := map[string]bool{}
	if os.Getenv("VERIF_ALLVIOL") != "" {
		for _, v := range r.Violations {
			fmt.Printf("VIOLATION-CASE %s %s\n", v.Tid, v.What[:min(len(v.What), 160)])
		}
	}
	for _, v := range r.Violations {
		if seenV[v.Sig] {
			continue
		}
		seenV[v.Sig] = true
		fmt.Printf("VIOLATION property=%s replay=%s\n", v.Prop, v.Replay)
		fmt.Printf("  sig=%s %s\n", v.Sig, v.What)
	}
	cov := map[string]any{
		"evaluations":                   r.Evaluations,
		"distinct_nontrivial":           len(r.Distinct),
		"rule":                          r.Rule,
		"samples":                       r.Samples,
		"states":                        r.States,
		"transitions":                   r.Transitions,
		"traces_validated_against_impl": r.TracesOK,
		"exhaustive":                    r.Exhaustive,
		"known_findings_hit":            len(r.Known),
		"violation_signatures":          len(seenV),
	}
	for k, v := range r.Extra {
		cov[k] = v
	}
	if len(mcReused) > 0 {
		cov["model_explorations_reused_from_cache"] = mcReused // VERIF_MCCACHE was set: those state counts were measured by an earlier run
	}
	if len(r.Samples) == 0 {
		cov["samples"] = []any{"(no case explored)"}
	}
	ev := map[string]any{
		"property_id": r.Prop,
		"tier":        r.Tier,
		"seed":        r.Seed,
		"level":       r.Level,
		"coverage":    cov,
		"assumptions": r.Assumptions,
		"wall_s":      wall,
		"violations":  len(r.Violations),
	}
	evDir := filepath.Join(verifRoot, "evidence")
	if repoDir() != "/repo" {
		evDir = filepath.Join(verifRoot, ".build", "evidence-alt") // trying a seeded change: never touch the real evidence
	}
	os.MkdirAll(evDir, 0o755)
	b, _ := json.MarshalIndent(ev, "", " ")
	os.WriteFile(filepath.Join(evDir, r.Prop+".json"), b, 0o644)
	if len(r.HarnessErr) > 0 {
		for _, e := range r.HarnessErr {
			fmt.Println("HARNESS-ERROR " + e)
		}
		if len(r.Violations) == 0 {
			return 2
		}
	}
	if len(r.Violations) > 0 {
		return 1
	}
	fmt.Printf("OK property=%s tier=%s evaluations=%d distinct_nontrivial=%d states=%d traces_validated=%d wall=%.1fs\n",
		r.Prop, r.Tier, r.Evaluations, len(r.Distinct), r.States, r.TracesOK, wall)
	return 0
}

var reQuoted = regexp.MustCompile(`"((?:[^"\\]|\\.)*)"`)
var reUserTok = regexp.MustCompile(`^(N_[0-9]+|P_[0-9]+|~k[0-9]+|X-H[0-9]+)$`)
var reNum = regexp.MustCompile(`^[0-9]+$`)

// diagShape abstracts a DIAG line into a signature: clause + the shape of the first path of its witness.
func diagShape(diag string) (tid, prop, clause, shape string) {
	qs := reQuoted.FindAllStringSubmatch(diag, 4)
	if len(qs) < 4 {
		return "", "", "", ""
	}
	tid, prop, clause = qs[1][1], qs[2][1], qs[3][1]
	rest := diag[strings.Index(diag, qs[3][0])+len(qs[3][0]):]
	first := reInner.FindString(rest)
	toks := []string{}
	for _, q := range reQuoted.FindAllStringSubmatch(first, -1) {
		t := q[1]
		switch {
		case reUserTok.MatchString(t):
			t = "*"
		case reNum.MatchString(t):
			t = "#"
		case httpMethods[t]:
			t = "M"
		case strings.HasPrefix(t, "#") && len(t) == 9:
			t = "$"
		}
		toks = append(toks, t)
	}
	return tid, prop, clause, strings.Join(toks, "/")
}

var reInner = regexp.MustCompile(`<<("[^<>]*")?>>`)
var httpMethods = map[string]bool{"get": true, "put": true, "post": true, "delete": true, "options": true, "head": true, "patch": true}
