package main

// Abstract attributed trees (DESIGN.md 3.1): projection JSON -> Node, concretization Node -> JSON.
// This file never imports the package under test.

import (
	"bytes"
	"crypto/sha256"
	"encoding/hex"
	"encoding/json"
	"fmt"
	"net/url"
	"path/filepath"
	"regexp"
	"sort"
	"strconv"
	"strings"
)

// Node is the abstract tree: At values are string or []string.
type Node struct {
	At map[string]any   `json:"at"`
	Ch map[string]*Node `json:"ch"`
}

func NewNode() *Node { return &Node{At: map[string]any{}, Ch: map[string]*Node{}} }

func (n *Node) Clone() *Node {
	if n == nil {
		return nil
	}
	c := NewNode()
	for k, v := range n.At {
		if s, ok := v.([]string); ok {
			c.At[k] = append([]string{}, s...)
		} else {
			c.At[k] = v
		}
	}
	for k, v := range n.Ch {
		c.Ch[k] = v.Clone()
	}
	return c
}

func (n *Node) Size() int {
	s := 1
	for _, c := range n.Ch {
		s += c.Size()
	}
	return s
}

func (n *Node) Ref() []string {
	if r, ok := n.At["$ref"].([]string); ok {
		return r
	}
	return nil
}

// Get returns the node at path, or nil.
func (n *Node) Get(path []string) *Node {
	cur := n
	for _, l := range path {
		if cur == nil {
			return nil
		}
		cur = cur.Ch[l]
	}
	return cur
}

// Set replaces/creates the node at path.
func (n *Node) Set(path []string, v *Node) {
	cur := n
	for i, l := range path {
		if i == len(path)-1 {
			cur.Ch[l] = v
			return
		}
		nx := cur.Ch[l]
		if nx == nil {
			nx = NewNode()
			cur.Ch[l] = nx
		}
		cur = nx
	}
}

// Walk visits every node with its path.
func (n *Node) Walk(path []string, f func(path []string, n *Node)) {
	f(path, n)
	keys := make([]string, 0, len(n.Ch))
	for k := range n.Ch {
		keys = append(keys, k)
	}
	sort.Strings(keys)
	for _, k := range keys {
		n.Ch[k].Walk(append(append([]string{}, path...), k), f)
	}
}

func (n *Node) Equal(m *Node) bool {
	a, _ := json.Marshal(n)
	b, _ := json.Marshal(m)
	return bytes.Equal(a, b)
}

func (n *Node) Hash() string {
	a, _ := json.Marshal(n)
	h := sha256.Sum256(a)
	return hex.EncodeToString(h[:8])
}

// ---------------------------------------------------------------------------------------------
// Name table: bijection placeholder <-> concrete string, per case.

type NameTable struct {
	ToConcrete map[string]string `json:"toConcrete"`
	toAbstract map[string]string
	fresh      int
}

func NewNameTable() *NameTable {
	return &NameTable{ToConcrete: map[string]string{}, toAbstract: map[string]string{}}
}

func (t *NameTable) Bind(placeholder, concrete string) {
	t.ToConcrete[placeholder] = concrete
	t.toAbstract[concrete] = placeholder
}

func (t *NameTable) rebuild() {
	t.toAbstract = map[string]string{}
	for p, c := range t.ToConcrete {
		t.toAbstract[c] = p
		if strings.HasPrefix(p, "~k") {
			if i, err := strconv.Atoi(p[2:]); err == nil && i > t.fresh {
				t.fresh = i
			}
		}
	}
}

var safeKeyRe = regexp.MustCompile(`^[A-Za-z0-9_\-$]+$`)
var safeValRe = regexp.MustCompile(`^[A-Za-z0-9_\-./: ();=]*$`)

// Abs maps a concrete member name / pointer token to its abstract label.
func (t *NameTable) Abs(concrete string) string {
	if p, ok := t.toAbstract[concrete]; ok {
		return p
	}
	if safeKeyRe.MatchString(concrete) {
		if _, clash := t.ToConcrete[concrete]; !clash {
			return concrete
		}
	}
	t.fresh++
	p := "~k" + strconv.Itoa(t.fresh)
	t.Bind(p, concrete)
	return p
}

// Conc maps an abstract label to the concrete string.
func (t *NameTable) Conc(label string) string {
	if c, ok := t.ToConcrete[label]; ok {
		return c
	}
	return label
}

func hash8(s string) string {
	h := sha256.Sum256([]byte(s))
	return hex.EncodeToString(h[:4])
}

func (t *NameTable) scalarStr(s string) string {
	// values are mapped through placeholders bound by a generator only: tokens created on the fly for member names
	// (~k<i>) must not change how an equal VALUE projects before and after the name was first met
	if p, ok := t.toAbstract[s]; ok && !strings.HasPrefix(p, "~k") {
		return p
	}
	if safeValRe.MatchString(s) && !strings.HasPrefix(s, "=") && !strings.HasPrefix(s, "#") {
		return s
	}
	return "#" + hash8(s)
}

// ---------------------------------------------------------------------------------------------
// File table of a bundle: docId <-> absolute path.

type FileTable struct {
	Paths map[string]string // docId -> absolute file path
}

func (f *FileTable) DocOf(abs string) string {
	abs = filepath.Clean(abs)
	for id, p := range f.Paths {
		if filepath.Clean(p) == abs {
			return id
		}
	}
	return "?" + abs
}

// ---------------------------------------------------------------------------------------------
// Projection.

type Projector struct {
	Names *NameTable
	Files *FileTable
}

func canonJSON(v any) string {
	b, _ := json.Marshal(v)
	return string(b)
}

func isScalar(v any) bool {
	switch v.(type) {
	case map[string]any, []any:
		return false
	}
	return true
}

func (pj *Projector) scalar(v any) string {
	switch x := v.(type) {
	case string:
		return pj.Names.scalarStr(x)
	default:
		return "=" + canonJSON(x)
	}
}

// ParseRef parses a raw $ref string found in document holderDoc into <<docId, tok...>>.
func (pj *Projector) ParseRef(raw string, holderDoc string) []string {
	base, frag := raw, ""
	hasFrag := false
	if i := strings.Index(raw, "#"); i >= 0 {
		base, frag, hasFrag = raw[:i], raw[i+1:], true
	}
	doc := holderDoc
	if base != "" {
		if u, err := url.Parse(base); err == nil && u.Scheme != "" && u.Scheme != "file" {
			doc = "?" + base
		} else {
			p := base
			if u != nil && err == nil && u.Scheme == "file" {
				p = u.Path
			}
			if up, err := url.PathUnescape(p); err == nil {
				p = up
			}
			if !filepath.IsAbs(p) {
				hp, ok := pj.Files.Paths[holderDoc]
				if !ok {
					hp = "/"
				}
				p = filepath.Join(filepath.Dir(hp), p)
			}
			doc = pj.Files.DocOf(p)
			if strings.HasPrefix(doc, "?") {
				// unknown document: keep the (cleaned) spelling so that rendering it again gives the same $ref
				if up, err := url.PathUnescape(base); err == nil && !filepath.IsAbs(up) {
					doc = "?" + filepath.ToSlash(filepath.Clean(up))
				}
			}
		}
	}
	out := []string{doc}
	if !hasFrag || frag == "" {
		return out
	}
	if uf, err := url.PathUnescape(frag); err == nil {
		frag = uf
	}
	if !strings.HasPrefix(frag, "/") {
		return append(out, "?"+frag)
	}
	for _, tok := range strings.Split(frag[1:], "/") {
		tok = strings.ReplaceAll(tok, "~1", "/")
		tok = strings.ReplaceAll(tok, "~0", "~")
		out = append(out, pj.Names.Abs(tok))
	}
	return out
}

// Project turns a decoded JSON object into a Node. holderDoc is the docId of the document it belongs to.
func (pj *Projector) Project(v map[string]any, holderDoc string) *Node {
	return pj.project(v, holderDoc, false)
}

// secReq: v is a security requirement (scheme -> scopes): a null scopes list is an empty list there, not an absent member
func (pj *Projector) project(v map[string]any, holderDoc string, secReq bool) *Node {
	n := NewNode()
	for k, val := range v {
		if k == "$ref" {
			if s, ok := val.(string); ok {
				n.At["$ref"] = pj.ParseRef(s, holderDoc)
				continue
			}
		}
		if val == nil {
			if secReq {
				n.At[pj.Names.Abs(k)] = []string{}
			}
			continue // JSON null == absent (serialization normal form)
		}
		label := pj.Names.Abs(k)
		switch x := val.(type) {
		case map[string]any:
			n.Ch[label] = pj.project(x, holderDoc, false)
		case []any:
			allMaps, allScalars := len(x) > 0, true
			for _, e := range x {
				if _, ok := e.(map[string]any); !ok {
					allMaps = false
				}
				if !isScalar(e) {
					allScalars = false
				}
			}
			switch {
			case k == "type" && allScalars:
				// multi-valued type: keep a scalar marker so that TLC never compares a string with a sequence
				n.At[label] = "=multi"
				n.At["__types"] = pj.scalars(x)
			case k == "enum":
				if allScalars {
					n.At[label] = pj.scalars(x)
				} else {
					n.At[label] = []string{"#" + hash8(canonJSON(x))}
				}
			case allMaps:
				ln := NewNode()
				ln.At["__list"] = "1"
				for i, e := range x {
					ln.Ch[strconv.Itoa(i)] = pj.project(e.(map[string]any), holderDoc, k == "security")
				}
				n.Ch[label] = ln
			case allScalars:
				n.At[label] = pj.scalars(x)
			default:
				n.At[label] = "#" + hash8(canonJSON(x))
			}
		default:
			n.At[label] = pj.scalar(x)
		}
	}
	return n
}

func (pj *Projector) scalars(x []any) []string {
	out := make([]string, 0, len(x))
	for _, e := range x {
		out = append(out, pj.scalar(e))
	}
	return out
}

func decodeJSON(b []byte) (map[string]any, error) {
	dec := json.NewDecoder(bytes.NewReader(b))
	dec.UseNumber()
	var v map[string]any
	if err := dec.Decode(&v); err != nil {
		return nil, err
	}
	return v, nil
}

// ProjectBytes projects serialized JSON.
func (pj *Projector) ProjectBytes(b []byte, holderDoc string) (*Node, error) {
	v, err := decodeJSON(b)
	if err != nil {
		return nil, err
	}
	return pj.Project(v, holderDoc), nil
}

// XKeys returns the labels of the tree that denote "x-" members.
func (pj *Projector) XKeys(n *Node) []string {
	set := map[string]bool{}
	n.Walk(nil, func(_ []string, m *Node) {
		for l := range m.Ch {
			if strings.HasPrefix(strings.ToLower(pj.Names.Conc(l)), "x-") {
				set[l] = true
			}
		}
	})
	out := make([]string, 0, len(set))
	for k := range set {
		out = append(out, k)
	}
	sort.Strings(out)
	return out
}

// ---------------------------------------------------------------------------------------------
// Concretization.

type Concretizer struct {
	Names *NameTable
	Files *FileTable
	// RefStyle: 0 = percent-escape the fragment (url.PathEscape), 1 = raw fragment except '#','%',
	// 2 = as 0, and every other cross-document $ref is spelled with a leading "./" (equivalent spellings of one target)
	RefStyle int
	nCross   int
}

func ptrEscape(tok string) string {
	tok = strings.ReplaceAll(tok, "~", "~0")
	return strings.ReplaceAll(tok, "/", "~1")
}

// RenderRef renders <<docId, tok...>> as a $ref string as seen from holderDoc.
func (c *Concretizer) RenderRef(ref []string, holderDoc string) string {
	var sb strings.Builder
	if len(ref) == 0 {
		return ""
	}
	if ref[0] != holderDoc {
		tp, ok := c.Files.Paths[ref[0]]
		if !ok {
			// unknown document: keep what we have
			sb.WriteString(strings.TrimPrefix(ref[0], "?"))
		} else {
			hp := c.Files.Paths[holderDoc]
			rel, err := filepath.Rel(filepath.Dir(hp), tp)
			if err != nil {
				rel = tp
			}
			if c.RefStyle == 2 {
				c.nCross++
				if c.nCross%2 == 0 && !strings.HasPrefix(rel, ".") {
					rel = "./" + rel
				}
			}
			sb.WriteString(filepath.ToSlash(rel))
		}
	}
	if len(ref) > 1 || ref[0] == holderDoc {
		sb.WriteString("#")
		for _, t := range ref[1:] {
			sb.WriteString("/")
			e := ptrEscape(c.Names.Conc(t))
			if c.RefStyle == 0 || c.RefStyle == 2 {
				e = url.PathEscape(e)
			} else {
				e = strings.ReplaceAll(strings.ReplaceAll(e, "%", "%25"), "#", "%23")
			}
			sb.WriteString(e)
		}
	}
	return sb.String()
}

func (c *Concretizer) unscalar(s string) any {
	if strings.HasPrefix(s, "=") {
		var v any
		dec := json.NewDecoder(strings.NewReader(s[1:]))
		dec.UseNumber()
		if err := dec.Decode(&v); err == nil {
			return v
		}
	}
	return c.Names.Conc(s)
}

// Concretize turns a Node into a JSON-marshalable value.
func (c *Concretizer) Concretize(n *Node, holderDoc string) any {
	if _, isList := n.At["__list"]; isList {
		arr := make([]any, len(n.Ch))
		for i := range arr {
			ch := n.Ch[strconv.Itoa(i)]
			if ch == nil {
				panic(fmt.Sprintf("list node without element %d", i))
			}
			arr[i] = c.Concretize(ch, holderDoc)
		}
		return arr
	}
	out := map[string]any{}
	if r, ok := n.At["$ref"].([]string); ok {
		out["$ref"] = c.RenderRef(r, holderDoc)
	}
	for k, v := range n.At {
		if k == "$ref" {
			continue
		}
		switch x := v.(type) {
		case string:
			out[c.Names.Conc(k)] = c.unscalar(x)
		case []string:
			arr := make([]any, len(x))
			for i, e := range x {
				arr[i] = c.unscalar(e)
			}
			out[c.Names.Conc(k)] = arr
		}
	}
	kids := make([]string, 0, len(n.Ch))
	for k := range n.Ch {
		kids = append(kids, k)
	}
	sort.Strings(kids)
	for _, k := range kids {
		out[c.Names.Conc(k)] = c.Concretize(n.Ch[k], holderDoc)
	}
	return out
}

// MarshalJSON for Node normalises At values after unmarshalling ([]any -> []string).
func (n *Node) UnmarshalJSON(b []byte) error {
	var raw struct {
		At map[string]any   `json:"at"`
		Ch map[string]*Node `json:"ch"`
	}
	if err := json.Unmarshal(b, &raw); err != nil {
		// TLC serialises empty records as [] : accept
		var alt struct {
			At any `json:"at"`
			Ch any `json:"ch"`
		}
		if err2 := json.Unmarshal(b, &alt); err2 != nil {
			return err
		}
		n.At, n.Ch = map[string]any{}, map[string]*Node{}
		if m, ok := alt.At.(map[string]any); ok {
			raw.At = m
		}
		if m, ok := alt.Ch.(map[string]any); ok {
			for k, v := range m {
				bb, _ := json.Marshal(v)
				c := &Node{}
				if err := c.UnmarshalJSON(bb); err != nil {
					return err
				}
				if raw.Ch == nil {
					raw.Ch = map[string]*Node{}
				}
				raw.Ch[k] = c
			}
		}
	}
	n.At, n.Ch = map[string]any{}, map[string]*Node{}
	for k, v := range raw.At {
		switch x := v.(type) {
		case string:
			n.At[k] = x
		case []any:
			s := make([]string, len(x))
			for i, e := range x {
				s[i], _ = e.(string)
			}
			n.At[k] = s
		}
	}
	for k, v := range raw.Ch {
		n.Ch[k] = v
	}
	return nil
}
