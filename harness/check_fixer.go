package main

// C19: FixEmptyResponseDescriptions against Fixer.tla.

import (
	"encoding/json"
	"fmt"
	"os"
	"path/filepath"
	"strings"
	"time"

	"github.com/go-openapi/analysis"
)

func init() {
	checks["C19"] = checkFixer
	workerOps["fixer"] = opFixer
}

type fixerRec struct {
	Tid      string   `json:"tid"`
	Before   *Node    `json:"before"`
	After    *Node    `json:"after"`
	After2   *Node    `json:"after2"`
	Panicked bool     `json:"panicked"`
	XKeys    []string `json:"xkeys"`
	Detail   string   `json:"-"`
}

func opFixer(req *Req) (any, map[string]string, error) {
	names := NewNameTable()
	for p, c := range req.Names {
		names.Bind(p, c)
	}
	names.rebuild()
	pj := &Projector{Names: names, Files: &FileTable{Paths: req.Files}}
	sw, err := loadSwagger(req.Files["root"])
	if err != nil {
		return nil, nil, fmt.Errorf("load: %w", err)
	}
	rec := &fixerRec{Tid: req.ID, After: NewNode(), After2: NewNode()}
	rec.Before, _, err = projectSwagger(pj, sw)
	if err != nil {
		return nil, nil, err
	}
	func() {
		defer func() {
			if r := recover(); r != nil {
				rec.Panicked = true
			}
		}()
		analysis.FixEmptyResponseDescriptions(sw)
		rec.After, _, _ = projectSwagger(pj, sw)
		analysis.FixEmptyResponseDescriptions(sw)
		rec.After2, _, _ = projectSwagger(pj, sw)
	}()
	set := map[string]bool{}
	for _, n := range []*Node{rec.Before, rec.After} {
		for _, k := range pj.XKeys(n) {
			set[k] = true
		}
	}
	rec.XKeys = []string{}
	for k := range set {
		rec.XKeys = append(rec.XKeys, k)
	}
	return rec, names.ToConcrete, nil
}

// fixerMutate strips descriptions / responses objects from a generated document so the fixer has work to do.
func fixerMutate(g *Gen, d *Node) {
	d.Walk(nil, func(p []string, n *Node) {
		if len(p) == 0 {
			return
		}
		last := p[len(p)-1]
		isResp := (len(p) >= 2 && p[len(p)-2] == "responses") && n.Ref() == nil
		if isResp {
			switch g.r.Intn(6) {
			case 0:
				delete(n.At, "description")
			case 1:
				n.At["description"] = ""
			case 2:
				n.At["description"] = " " // blank, but a description: must be left alone
			}
		}
		for _, m := range allMethods {
			if last == m && g.r.Intn(6) == 0 {
				delete(n.Ch, "responses")
			}
		}
	})
	if g.r.Intn(8) == 0 {
		delete(d.Ch, "paths")
	}
}

func checkFixer(prop, tier string, seed int64) int {
	rep := NewReport(prop, tier, seed)
	rep.Rule = "documents: TLC-enumerated decision table (response kind x location x method x presence of responses object / paths) + seeded random documents with descriptions removed or emptied and responses objects dropped + repository fixtures; non-trivial: at least one response position; distinct by document hash"
	rep.Assumptions = []string{"projection (round-trip self-checked)", "TLC, Json module"}
	scratch, err := scratchDir("fixer")
	if err != nil {
		rep.HarnessErr = append(rep.HarnessErr, err.Error())
		return rep.Finish()
	}
	if os.Getenv("VERIF_KEEP") == "" {
		defer os.RemoveAll(scratch)
	}
	cases := []*Case{}
	add := func(c *Case) {
		if err := c.Materialize(filepath.Join(scratch, "cases", c.Tid)); err != nil {
			rep.HarnessErr = append(rep.HarnessErr, err.Error())
			return
		}
		if err := c.RoundTrip(); err != nil {
			rep.HarnessErr = append(rep.HarnessErr, err.Error())
			return
		}
		cases = append(cases, c)
	}
	run, lines, err := runMC("MC_Fixer", map[string]string{"Export": "TRUE"}, 5*time.Minute, 8)
	if err != nil || run == nil || !run.OK {
		t := ""
		if run != nil {
			t = run.InvViolated + "\n" + run.Tail
		}
		rep.HarnessErr = append(rep.HarnessErr, fmt.Sprintf("MC_Fixer: %v %s", err, t))
	} else {
		rep.Extra["exhaustive_model_run"] = map[string]any{"module": "MC_Fixer", "distinct_states": run.Distinct, "documents_exported": run.Exported,
			"invariants": []string{"Idempotent", "Complete", "OnlyDescs", "KeepsGiven", "RefsUntouched"}}
		rep.States += run.Distinct
		rep.Transitions += run.Generated
		for i, l := range lines {
			var ex struct {
				M   string `json:"m"`
				Doc *Node  `json:"doc"`
			}
			if e := json.Unmarshal([]byte(l), &ex); e != nil || ex.Doc == nil {
				rep.HarnessErr = append(rep.HarnessErr, "MC_Fixer export not parseable")
				break
			}
			g := NewGen(seed*13+int64(i), GenOpts{PlainNames: i%2 == 0})
			b := &Bundle{Docs: map[string]*Node{"root": ex.Doc}, Files: map[string]string{"root": "api/root.json"}}
			bindPlaceholders(g, b.Docs)
			add(&Case{Tid: fmt.Sprintf("s%d", i), Source: "tlc", Bundle: b, Names: g.Names.ToConcrete, Note: "method=" + ex.M})
		}
	}
	ngen := 200
	if tier == "thorough" {
		ngen = 4000
	}
	for i := 0; i < ngen; i++ {
		g := NewGen(seed*1000033+int64(i), GenOpts{MaxDepth: 1, NDefs: 2, Shared: true, Decor: true, Dangling: true, PlainNames: i%2 == 0})
		b := g.GenBundle()
		fixerMutate(g, b.Docs["root"])
		add(&Case{Tid: fmt.Sprintf("g%d", i), Source: "gen", Seed: seed, Bundle: b, Names: g.Names.ToConcrete})
	}
	for i, f := range fixtureFiles() {
		if tier != "thorough" && i%3 != int(seed%3) {
			continue
		}
		cases = append(cases, &Case{Tid: fmt.Sprintf("f%d", i), Source: "fixture", Dir: filepath.Dir(f), Files: map[string]string{"root": f}, Names: map[string]string{}, Note: f})
	}
	reqs := make([]*Req, len(cases))
	for i, c := range cases {
		reqs[i] = c.Req("fixer", nil)
	}
	pool := &Pool{Exe: selfExe(), N: nWorkers(), Timeout: 20 * time.Second}
	resps := pool.Run(reqs)
	recs := []json.RawMessage{}
	for _, r := range resps {
		if r.Err == "" && r.Crash == "" && r.Rec != nil {
			recs = append(recs, r.Rec)
		}
	}
	tl, err := RunTraceValidation(scratch, "Trace_Fixer", recs, 20*time.Minute)
	if err != nil || tl == nil || !tl.OK {
		rep.HarnessErr = append(rep.HarnessErr, fmt.Sprintf("Trace_Fixer: %v", err))
		if tl != nil {
			rep.HarnessErr = append(rep.HarnessErr, tail(stripExports(tl.Out), 20))
		}
		return rep.Finish()
	}
	rep.States += tl.Distinct
	rep.Transitions += tl.Generated
	diags := map[string][]string{}
	for _, d := range tl.Diags {
		tid, _, _, _ := diagShape(d)
		diags[tid] = append(diags[tid], d)
	}
	for i, c := range cases {
		r := resps[i]
		if r.Crash != "" {
			replay := c.SaveReplay(prop, "fixer", nil, map[string]string{"detail.txt": r.Detail})
			rep.AddViolation(Violation{Prop: prop, Tid: c.Tid, Sig: prop + ":crash." + r.Crash, What: firstLines(r.Detail, 3), Replay: replay})
			rep.Evaluations++
			continue
		}
		if r.Err != "" {
			if c.Source != "fixture" {
				rep.HarnessErr = append(rep.HarnessErr, c.Tid+": "+r.Err)
			}
			continue
		}
		v, ok := tl.Verdicts[c.Tid]
		if !ok {
			rep.HarnessErr = append(rep.HarnessErr, "no verdict for "+c.Tid)
			continue
		}
		rep.Evaluations++
		st := tl.Stats[c.Tid]
		if len(st) >= 2 && st[1] > 0 {
			var fr fixerRec
			json.Unmarshal(r.Rec, &fr)
			rep.Distinct[fr.Before.Hash()] = true
			if len(rep.Samples) < 3 && st[0] > 0 {
				rep.Samples = append(rep.Samples, map[string]any{"tid": c.Tid, "source": c.Source, "note": c.Note, "responses_to_fix": st[0], "response_positions": st[1]})
			}
		}
		if v[prop] {
			rep.TracesOK++
			continue
		}
		sig, what := prop+":unclassified", "verdict false"
		if ds := diags[c.Tid]; len(ds) > 0 {
			_, _, clause, shape := diagShape(ds[0])
			sig = prop + ":" + clause + ":" + shape
			what = ds[0]
		}
		replay := c.SaveReplay(prop, "fixer", nil, map[string]string{"diag.txt": strings.Join(diags[c.Tid], "\n"), "record.json": string(r.Rec)})
		rep.AddViolation(Violation{Prop: prop, Tid: c.Tid, Sig: sig, What: "[" + c.Note + "] " + what, Replay: replay})
	}
	return rep.Finish()
}
