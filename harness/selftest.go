package main

// bin/verif selftest : demonstrates the binding between the recorded traces and the specification (not a registered check).
// A few records are taken from real runs, accepted by TLC, then CORRUPTED one field at a time; TLC must reject each corruption
// through the expected verdict. A trace specification that constrained nothing would accept them.

import (
	"bytes"
	"encoding/json"
	"fmt"
	"os"
	"path/filepath"
	"strings"
	"time"
)

func init() { tools["selftest"] = selftest }

func mutateJSON(raw json.RawMessage, f func(m map[string]any)) json.RawMessage {
	var m map[string]any
	json.Unmarshal(raw, &m)
	f(m)
	b, _ := json.Marshal(m)
	return b
}

// firstRefHolder finds (depth-first, sorted) a node of the abstract tree that carries a $ref; returns its at-map.
func firstRefHolder(n map[string]any, want func(ref []any) bool) map[string]any {
	at, _ := n["at"].(map[string]any)
	if r, ok := at["$ref"].([]any); ok && want(r) {
		return at
	}
	ch, _ := n["ch"].(map[string]any)
	keys := []string{}
	for k := range ch {
		keys = append(keys, k)
	}
	sortStrings(keys)
	for _, k := range keys {
		if c, ok := ch[k].(map[string]any); ok {
			if h := firstRefHolder(c, want); h != nil {
				return h
			}
		}
	}
	return nil
}

func sortStrings(xs []string) {
	for i := range xs {
		for j := i + 1; j < len(xs); j++ {
			if xs[j] < xs[i] {
				xs[i], xs[j] = xs[j], xs[i]
			}
		}
	}
}

func selftest(args []string) int {
	scratch, err := scratchDir("selftest")
	if err != nil {
		fmt.Println(err)
		return 2
	}
	defer os.RemoveAll(scratch)
	failures := 0
	expect := func(name string, got, want bool) {
		status := "ok"
		if got != want {
			status = "FAILED"
			failures++
		}
		fmt.Printf("selftest %-58s expected=%v got=%v %s\n", name, want, got, status)
	}

	// ---- Flatten: one scenario that imports, names and removes -------------------------------------------------
	os.Setenv("VERIF_SCEN", "0")
	os.Setenv("VERIF_NOKEYS", "1")
	sc, errs := scenarioCases("flatten", "quick", 1, filepath.Join(scratch, "cases"))
	os.Unsetenv("VERIF_SCEN")
	if len(errs) > 0 || len(sc) == 0 {
		fmt.Println("cannot build scenario cases:", errs)
		return 2
	}
	var c *Case
	for _, x := range sc {
		if x.Bundle.Feat.NAux > 0 && !x.Bundle.Feat.Collision && !x.Bundle.Feat.Anon {
			c = x
			break
		}
	}
	if c == nil {
		c = sc[0]
	}
	o := flattenOpts{RemoveUnused: true}
	fargs := flattenArgs{Opts: o, InW: true, Second: true, Getters: true, Phases: true}
	rq := c.Req("flatten", fargs)
	rq.ID = "base"
	pool := &Pool{Exe: selfExe(), N: 2, Timeout: 20 * time.Second}
	resp := pool.RunOne(rq, 20*time.Second)
	if resp.Err != "" || resp.Crash != "" {
		fmt.Println("base run failed:", resp.Err, resp.Crash)
		return 2
	}
	withTid := func(raw json.RawMessage, tid string, f func(m map[string]any)) json.RawMessage {
		return mutateJSON(raw, func(m map[string]any) { m["tid"] = tid; f(m) })
	}
	recs := []json.RawMessage{resp.Rec}
	// (1) re-point one $ref of the output to another existing definition: "no dangling ref" still holds, the meaning does not
	recs = append(recs, withTid(resp.Rec, "wrongref", func(m map[string]any) {
		doc := m["doc"].(map[string]any)
		defs := doc["ch"].(map[string]any)["definitions"].(map[string]any)["ch"].(map[string]any)
		names := []string{}
		for k := range defs {
			names = append(names, k)
		}
		sortStrings(names)
		paths := doc["ch"].(map[string]any)["paths"].(map[string]any)
		h := firstRefHolder(paths, func(r []any) bool { return len(r) == 3 })
		if h != nil {
			cur := h["$ref"].([]any)[2].(string)
			for _, n := range names {
				if n != cur {
					h["$ref"] = []any{"root", "definitions", n}
					break
				}
			}
		}
		// keep the last phase snapshot consistent with the corrupted document
		ph := m["phases"].([]any)
		ph[len(ph)-1].(map[string]any)["doc"] = doc
	}))
	// (2) drop one phase snapshot: the recorded behaviour is no longer a behaviour of the pipeline
	recs = append(recs, withTid(resp.Rec, "dropphase", func(m map[string]any) {
		ph := m["phases"].([]any)
		out := []any{}
		for _, p := range ph {
			if p.(map[string]any)["ev"] != "phase.import" {
				out = append(out, p)
			}
		}
		m["phases"] = out
	}))
	// (3) corrupt the logged name of an import event: the step is no longer explained by ImportNew
	recs = append(recs, withTid(resp.Rec, "wrongname", func(m map[string]any) {
		for _, e := range m["events"].([]any) {
			ev := e.(map[string]any)
			if ev["ev"] == "import.new" {
				ev["name"] = "someOtherName"
				break
			}
		}
	}))
	// (4) pretend the analyzer that was passed in still holds one more reference than a fresh analysis
	recs = append(recs, withTid(resp.Rec, "stale", func(m map[string]any) {
		g := m["getters"].(map[string]any)["index"].(map[string]any)["refs"].(map[string]any)
		all, _ := g["all"].([]any)
		g["all"] = append(all, []any{"root", "definitions", "ghost"})
	}))
	// (5) an unused definition left behind although RemoveUnused was requested
	recs = append(recs, withTid(resp.Rec, "leftover", func(m map[string]any) {
		doc := m["doc"].(map[string]any)
		defs := doc["ch"].(map[string]any)["definitions"].(map[string]any)["ch"].(map[string]any)
		defs["leftover"] = map[string]any{"at": map[string]any{"type": "string"}, "ch": map[string]any{}}
		m["fold"].(map[string]any)["leftover"] = "leftover"
		ph := m["phases"].([]any)
		ph[len(ph)-1].(map[string]any)["doc"] = doc
	}))
	// (6) a run with a name collision: the logged parents of a de-duplication step are corrupted (one dropped) - the step is no
	//     longer the model's StripFor with the parents the model computes
	var cc *Case
	for _, x := range sc {
		if x.Bundle.Feat.Collision && !x.Bundle.Feat.Anon && strings.Contains(x.Note, ",code,") {
			cc = x
			break
		}
	}
	hasCtx := false
	if cc != nil {
		rq2 := cc.Req("flatten", flattenArgs{Opts: flattenOpts{Minimal: true}, InW: true, Phases: true})
		rq2.ID = "ctxbase"
		r2 := pool.RunOne(rq2, 20*time.Second)
		if r2.Err == "" && r2.Crash == "" && bytes.Contains(r2.Rec, []byte(`"ev":"strip.one"`)) {
			hasCtx = true
			recs = append(recs, r2.Rec)
			recs = append(recs, withTid(r2.Rec, "ctxparents", func(m map[string]any) {
				for _, e := range m["events"].([]any) {
					ev := e.(map[string]any)
					if ps, ok := ev["parents"].([]any); ok && ev["ev"] == "strip.one" && len(ps) > 0 {
						if len(ps) > 1 {
							ev["parents"] = ps[:len(ps)-1]
						} else {
							ev["parents"] = append(ps, []any{"definitions", "noSuchHolder"})
						}
						break
					}
				}
			}))
		}
	}
	tl, err := RunTraceValidation(filepath.Join(scratch, "fl"), "Trace_Flatten", recs, 5*time.Minute)
	if err != nil || tl == nil || !tl.OK {
		fmt.Println("TLC failed:", err)
		if tl != nil {
			fmt.Println(firstLines(tail(stripExports(tl.Out), 60), 30))
		}
		return 2
	}
	v := tl.Verdicts
	expect("flatten: untouched record accepted (C01)", v["base"]["C01"], true)
	expect("flatten: untouched record step-conformant", v["base"]["STEPS"], true)
	expect("flatten: $ref re-pointed to another definition -> C01", v["wrongref"]["C01"], false)
	expect("flatten: same corruption still passes 'no dangling' (C02)", v["wrongref"]["C02"], true)
	expect("flatten: phase snapshot dropped -> pipeline shape (L1)", v["dropphase"]["L1"], false)
	expect("flatten: logged import name corrupted -> STEPS", v["wrongname"]["STEPS"], false)
	expect("flatten: stale reference in passed-in analyzer -> C10", v["stale"]["C10"], false)
	expect("flatten: unused definition left -> C06", v["leftover"]["C06"], false)
	if hasCtx {
		expect("flatten: untouched collision run conforms to the context model (CTX)", v["ctxbase"]["CTX"], true)
		expect("flatten: logged parents of a de-duplication step corrupted -> CTX", v["ctxparents"]["CTX"], false)
	} else {
		fmt.Println("selftest: no collision scenario with a de-duplication step available (CTX corruption not exercised)")
	}

	// ---- Analyzer: drop one indexed reference ---------------------------------------------------------------------
	g := NewGen(7, analyzerGenOpts(1))
	ab := g.GenBundle()
	ac := &Case{Tid: "an", Source: "gen", Bundle: ab, Names: g.Names.ToConcrete}
	if err := ac.Materialize(filepath.Join(scratch, "an")); err != nil {
		fmt.Println(err)
		return 2
	}
	ar := pool.RunOne(ac.Req("analyze", nil), 20*time.Second)
	if ar.Err != "" || ar.Crash != "" {
		fmt.Println("analyze failed", ar.Err, ar.Crash)
		return 2
	}
	arecs := []json.RawMessage{ar.Rec, withTid(ar.Rec, "dropref", func(m map[string]any) {
		refs := m["ans"].(map[string]any)["refs"].(map[string]any)
		if s, ok := refs["schema"].([]any); ok && len(s) > 0 {
			refs["schema"] = s[1:]
		}
	}), withTid(ar.Rec, "dropschema", func(m map[string]any) {
		a := m["ans"].(map[string]any)
		if s, ok := a["schemas"].([]any); ok && len(s) > 0 {
			a["schemas"] = s[1:]
		}
	})}
	tl2, err := RunTraceValidation(filepath.Join(scratch, "an2"), "Trace_Analyzer", arecs, 5*time.Minute)
	if err != nil || tl2 == nil || !tl2.OK {
		fmt.Println("TLC failed:", err)
		return 2
	}
	expect("analyzer: untouched record accepted (C11)", tl2.Verdicts["an"]["C11"], true)
	expect("analyzer: one schema reference removed from the answer -> C11", tl2.Verdicts["dropref"]["C11"], false)
	expect("analyzer: one schema entry removed from the answer -> C12", tl2.Verdicts["dropschema"]["C12"], false)
	if failures > 0 {
		fmt.Printf("selftest: %d expectation(s) FAILED\n", failures)
		return 1
	}
	fmt.Println("selftest: all corruptions rejected")
	return 0
}
