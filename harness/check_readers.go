package main

// C16: read-only, copy-safe, concurrent readers. The worker is the harness built with -race (bin/verif builds it for C16);
// GORACE=halt_on_error=1 makes the first detected race kill the worker with exit code 66.

import (
	"bytes"
	"encoding/json"
	"fmt"
	"math/rand"
	"os"
	"path/filepath"
	"sort"
	"strings"
	"sync"
	"time"

	"github.com/go-openapi/analysis"
	"github.com/go-openapi/spec"
)

func init() {
	checks["C16"] = checkReaders
	workerOps["readers"] = opReaders
}

type rdEvent struct {
	G int    `json:"g"`
	N int    `json:"n"`
	Q string `json:"q"`
	A string `json:"a"`
}
type readersRec struct {
	Tid            string            `json:"tid"`
	Baseline       map[string]string `json:"baseline"`
	Events         []rdEvent         `json:"events"`
	DocUnchanged   bool              `json:"docUnchanged"`
	BuildUnchanged bool              `json:"buildUnchanged"`
	Race           string            `json:"race"`
}
type readersArgs struct {
	G    int   `json:"g"`
	Q    int   `json:"q"`
	Seed int64 `json:"seed"`
}

func canon(v any) string {
	b, _ := json.Marshal(v)
	return hash8(string(b))
}
func sortedStrs(xs []string) []string {
	out := append([]string{}, xs...)
	sort.Strings(out)
	return out
}

// readerQueries builds the list of named queries (all public query methods) for a document.
func readerQueries(an *analysis.Spec, sw *spec.Swagger, scribble bool) map[string]func() string {
	qs := map[string]func() string{}
	strq := func(name string, f func() []string) { qs[name] = func() string { return canon(sortedStrs(f())) } }
	strq("AllReferences", an.AllReferences)
	strq("AllDefinitionReferences", an.AllDefinitionReferences)
	strq("AllParameterReferences", an.AllParameterReferences)
	strq("AllResponseReferences", an.AllResponseReferences)
	strq("AllPathItemReferences", an.AllPathItemReferences)
	strq("AllItemsReferences", an.AllItemsReferences)
	strq("OperationIDs", an.OperationIDs)
	strq("OperationMethodPaths", an.OperationMethodPaths)
	strq("RequiredConsumes", an.RequiredConsumes)
	strq("RequiredProduces", an.RequiredProduces)
	strq("RequiredSecuritySchemes", an.RequiredSecuritySchemes)
	qs["AllRefs"] = func() string {
		out := []string{}
		for _, r := range an.AllRefs() {
			out = append(out, r.String())
		}
		return canon(sortedStrs(out))
	}
	pat := func(name string, f func() map[string]string) {
		qs[name] = func() string {
			m := f()
			a := canon(m)
			if scribble { // the client scribbles on the map it was handed
				for k := range m {
					delete(m, k)
					break
				}
				m["#/scribbled/by/client"] = "x"
			}
			return a
		}
	}
	pat("ParameterPatterns", an.ParameterPatterns)
	pat("HeaderPatterns", an.HeaderPatterns)
	pat("ItemsPatterns", an.ItemsPatterns)
	pat("SchemaPatterns", an.SchemaPatterns)
	pat("AllPatterns", an.AllPatterns)
	enum := func(name string, f func() map[string][]interface{}) {
		qs[name] = func() string {
			m := f()
			a := canon(m)
			if scribble {
				for k := range m {
					delete(m, k)
					break
				}
				m["#/scribbled/by/client"] = []interface{}{"x"}
			}
			return a
		}
	}
	enum("ParameterEnums", an.ParameterEnums)
	enum("HeaderEnums", an.HeaderEnums)
	enum("ItemsEnums", an.ItemsEnums)
	enum("SchemaEnums", an.SchemaEnums)
	enum("AllEnums", an.AllEnums)
	qs["AllDefinitions"] = func() string {
		out := []string{}
		for _, sr := range an.AllDefinitions() {
			out = append(out, fmt.Sprintf("%s|%s|%v", sr.Ref.String(), sr.Name, sr.TopLevel))
		}
		return canon(sortedStrs(out))
	}
	qs["SchemasWithAllOf"] = func() string {
		out := []string{}
		for _, sr := range an.SchemasWithAllOf() {
			out = append(out, sr.Ref.String())
		}
		return canon(sortedStrs(out))
	}
	qs["AllPaths"] = func() string {
		out := []string{}
		for p := range an.AllPaths() {
			out = append(out, p)
		}
		return canon(sortedStrs(out))
	}
	qs["Operations"] = func() string {
		out := []string{}
		for m, byPath := range an.Operations() {
			for p, op := range byPath {
				out = append(out, m+" "+p+" "+op.ID)
			}
		}
		return canon(sortedStrs(out))
	}
	qs["OperationMethods"] = func() string {
		out := []string{}
		for m, byPath := range an.Operations() {
			out = append(out, fmt.Sprintf("%s:%d", m, len(byPath)))
		}
		return canon(sortedStrs(out))
	}
	qs["OperationIDsNil"] = func() string { return canon(an.OperationIDs() == nil) }
	// look-ups that find nothing: methods without any operation, unknown paths
	lookPaths := []string{"/no/such/path"}
	for p := range an.AllPaths() {
		lookPaths = append(lookPaths, p)
	}
	sort.Strings(lookPaths)
	if len(lookPaths) > 3 {
		lookPaths = lookPaths[:3]
	}
	for pi, p := range lookPaths {
		for mi, m := range []string{"GET", "put", "Post", "DELETE", "options", "HEAD", "patch"} {
			m, p := m, p
			sfx := fmt.Sprintf("?%d.%d", pi, mi)
			qs["OperationFor"+sfx] = func() string {
				op, ok := an.OperationFor(m, p)
				return canon([]any{ok, op != nil})
			}
			qs["SafeParamsFor"+sfx] = func() string {
				out := []string{}
				for k, q := range an.SafeParamsFor(m, p, func(spec.Parameter, error) bool { return true }) {
					out = append(out, k+"="+q.Name)
				}
				return canon(sortedStrs(out))
			}
		}
	}
	// per operation queries
	type opk struct {
		m, p string
		op   *spec.Operation
	}
	ops := []opk{}
	for m, byPath := range an.Operations() {
		for p, op := range byPath {
			ops = append(ops, opk{m, p, op})
		}
	}
	sort.Slice(ops, func(i, j int) bool { return ops[i].m+ops[i].p < ops[j].m+ops[j].p })
	if len(ops) > 12 {
		ops = ops[:12]
	}
	idCount := map[string]int{}
	for _, byPath := range an.Operations() {
		for _, op := range byPath {
			idCount[op.ID]++
		}
	}
	for i, o := range ops {
		o := o
		sfx := fmt.Sprintf("#%d", i)
		qs["OperationFor"+sfx] = func() string {
			op, ok := an.OperationFor(strings.ToLower(o.m), o.p)
			return canon([]any{ok, op != nil && op.ID == o.op.ID})
		}
		qs["ConsumesFor"+sfx] = func() string { return canon(sortedStrs(an.ConsumesFor(o.op))) }
		qs["ProducesFor"+sfx] = func() string { return canon(sortedStrs(an.ProducesFor(o.op))) }
		qs["SecurityRequirementsFor"+sfx] = func() string {
			out := []string{}
			for _, alt := range an.SecurityRequirementsFor(o.op) {
				a := []string{}
				for _, r := range alt {
					a = append(a, r.Name+":"+strings.Join(r.Scopes, ","))
				}
				sort.Strings(a)
				out = append(out, strings.Join(a, ";"))
			}
			return canon(out)
		}
		qs["SecurityDefinitionsFor"+sfx] = func() string {
			out := []string{}
			for k := range an.SecurityDefinitionsFor(o.op) {
				out = append(out, k)
			}
			return canon(sortedStrs(out))
		}
		qs["SafeParamsFor"+sfx] = func() string {
			out := []string{}
			for k, p := range an.SafeParamsFor(o.m, o.p, func(spec.Parameter, error) bool { return true }) {
				out = append(out, k+"="+p.Name)
			}
			return canon(sortedStrs(out))
		}
		if o.op.ID != "" && idCount[o.op.ID] == 1 { // lookups by id are claimed for unique ids
			qs["SafeParametersFor"+sfx] = func() string {
				out := []string{}
				for _, p := range an.SafeParametersFor(o.op.ID, func(spec.Parameter, error) bool { return true }) {
					out = append(out, p.In+"#"+p.Name)
				}
				return canon(sortedStrs(out))
			}
			qs["OperationForName"+sfx] = func() string { m, p, _, ok := an.OperationForName(o.op.ID); return canon([]any{m, p, ok}) }
		}
	}
	return qs
}

func opReaders(req *Req) (any, map[string]string, error) {
	var args readersArgs
	json.Unmarshal(req.Args, &args)
	sw, err := loadSwagger(req.Files["root"])
	if err != nil {
		return nil, nil, fmt.Errorf("load: %w", err)
	}
	before, _ := json.Marshal(sw)
	an := analysis.New(sw)
	afterBuild, _ := json.Marshal(sw)
	rec := &readersRec{Tid: req.ID, Baseline: map[string]string{}, Events: []rdEvent{}, Race: "none", BuildUnchanged: bytes.Equal(before, afterBuild)}
	// sequential baseline on a SEPARATE analyzer of a separate copy of the document
	sw2, _ := loadSwagger(req.Files["root"])
	base := readerQueries(analysis.New(sw2), sw2, false)
	names := make([]string, 0, len(base))
	for k, f := range base {
		rec.Baseline[k] = f()
		names = append(names, k)
	}
	sort.Strings(names)
	qs := readerQueries(an, sw, true)
	var mu sync.Mutex
	var wg sync.WaitGroup
	start := make(chan struct{})
	for g := 0; g < args.G; g++ {
		wg.Add(1)
		go func(g int) {
			defer wg.Done()
			r := rand.New(rand.NewSource(args.Seed*131 + int64(g)))
			local := make([]rdEvent, 0, args.Q)
			<-start
			for n := 1; n <= args.Q; n++ {
				q := names[r.Intn(len(names))]
				local = append(local, rdEvent{G: g, N: n, Q: q, A: qs[q]()})
			}
			mu.Lock()
			rec.Events = append(rec.Events, local...)
			mu.Unlock()
		}(g)
	}
	close(start)
	wg.Wait()
	after, _ := json.Marshal(sw)
	rec.DocUnchanged = bytes.Equal(before, after)
	return rec, nil, nil
}

func checkReaders(prop, tier string, seed int64) int {
	rep := NewReport(prop, tier, seed)
	rep.Rule = "documents: seeded random documents (patterns, enums, refs, operations with security/media types/parameters) + repository fixtures; G goroutines released together on ONE analyzed Spec, each issuing a seeded random sequence of all public query methods and scribbling on every returned pattern/enum map; " +
		"the worker is built with -race (GORACE=halt_on_error=1); non-trivial: at least 2 goroutines and 20 query kinds; distinct by (document hash, seed)"
	rep.Assumptions = []string{"Go's race detector decides the absence of data races on the executed interleavings (sampled schedules)", "answers are compared in canonical (sorted) form", "TLC, Json module"}
	scratch, err := scratchDir("readers")
	if err != nil {
		rep.HarnessErr = append(rep.HarnessErr, err.Error())
		return rep.Finish()
	}
	if os.Getenv("VERIF_KEEP") == "" {
		defer os.RemoveAll(scratch)
	}
	// design-level model and its negative control
	mc, _, err1 := runMC("MC_Readers", nil, 5*time.Minute, 8)
	if err1 != nil || mc == nil || !mc.OK {
		rep.HarnessErr = append(rep.HarnessErr, fmt.Sprintf("MC_Readers: %v", err1))
	} else {
		rep.States += mc.Distinct
		rep.Transitions += mc.Generated
	}
	neg, _, _ := runMCcfg("MC_Readers", "MC_Readers_neg.cfg", nil, 5*time.Minute, 8)
	if neg == nil || neg.InvViolated != "ReadOnly" {
		rep.HarnessErr = append(rep.HarnessErr, "negative control MC_Readers_neg did not violate ReadOnly: the invariant is vacuous")
	}
	if mc != nil && neg != nil {
		rep.Extra["exhaustive_model_run"] = map[string]any{"module": "MC_Readers", "distinct_states": mc.Distinct, "invariants": []string{"ReadOnly"},
			"negative_control": "MC_Readers_neg.cfg (aliasing getter): violates " + neg.InvViolated}
	}
	ndocs, G, Q := 16, 8, 150
	if tier == "thorough" {
		ndocs, G, Q = 150, 16, 500
	}
	cases := []*Case{}
	for i := 0; i < ndocs; i++ {
		r := rand.New(rand.NewSource(seed*1000081 + int64(i)))
		g := NewGen(seed*1000081+int64(i), GenOpts{MaxDepth: 2, NDefs: 3, Shared: true, Decor: true, Dangling: true, AllKeywords: true, PlainNames: i%2 == 0})
		var root *Node
		if i%2 == 0 {
			root = g.GenBundle().Docs["root"]
		} else {
			root = genQueryDoc(g, r)
		}
		b := &Bundle{Docs: map[string]*Node{"root": root}, Files: map[string]string{"root": "api/root.json"}}
		c := &Case{Tid: fmt.Sprintf("g%d", i), Source: "gen", Bundle: b, Names: g.Names.ToConcrete}
		if err := c.Materialize(filepath.Join(scratch, "cases", c.Tid)); err == nil {
			if i%2 == 1 {
				c.NullScopes()
			}
			cases = append(cases, c)
		}
	}
	for i, f := range fixtureFiles() {
		if strings.Contains(f, "/azure/") || (tier != "thorough" && i%8 != int(seed%8)) {
			continue
		}
		cases = append(cases, &Case{Tid: fmt.Sprintf("f%d", i), Source: "fixture", Dir: filepath.Dir(f), Files: map[string]string{"root": f}, Names: map[string]string{}, Note: f})
	}
	reqs := make([]*Req, len(cases))
	for i, c := range cases {
		reqs[i] = c.Req("readers", readersArgs{G: G, Q: Q, Seed: seed*977 + int64(i)})
	}
	exe := selfExe() + "-race"
	if _, err := os.Stat(exe); err != nil {
		rep.HarnessErr = append(rep.HarnessErr, "race-enabled harness not built: "+exe)
		return rep.Finish()
	}
	pool := &Pool{Exe: exe, N: 4, Timeout: 120 * time.Second, Env: []string{"GORACE=halt_on_error=1"}}
	resps := pool.Run(reqs)
	recs := []json.RawMessage{}
	for i, r := range resps {
		if r.Crash != "" {
			race := r.Crash
			if strings.Contains(r.Detail, "DATA RACE") {
				race = "data-race"
			} else if strings.Contains(r.Detail, "concurrent map") {
				race = "concurrent-map-access"
			}
			b, _ := json.Marshal(&readersRec{Tid: cases[i].Tid, Baseline: map[string]string{}, Events: []rdEvent{}, Race: race})
			recs = append(recs, b)
			continue
		}
		if r.Err == "" && r.Rec != nil {
			recs = append(recs, r.Rec)
		}
	}
	tl, err := RunTraceValidation(scratch, "Trace_Readers", recs, 20*time.Minute)
	if err != nil || tl == nil || !tl.OK {
		rep.HarnessErr = append(rep.HarnessErr, fmt.Sprintf("Trace_Readers: %v", err))
		if tl != nil {
			rep.HarnessErr = append(rep.HarnessErr, tail(stripExports(tl.Out), 20))
		}
		return rep.Finish()
	}
	rep.States += tl.Distinct
	rep.Transitions += tl.Generated
	diags := map[string][]string{}
	for _, d := range tl.Diags {
		tid, _, _, _ := diagShape(d)
		diags[tid] = append(diags[tid], d)
	}
	events := 0
	for i, c := range cases {
		r := resps[i]
		if r.Err != "" && r.Crash == "" {
			if c.Source != "fixture" {
				rep.HarnessErr = append(rep.HarnessErr, c.Tid+": "+r.Err)
			}
			continue
		}
		v, ok := tl.Verdicts[c.Tid]
		if !ok {
			rep.HarnessErr = append(rep.HarnessErr, "no verdict for "+c.Tid)
			continue
		}
		rep.Evaluations++
		st := tl.Stats[c.Tid]
		if len(st) >= 3 {
			events += st[0]
			if st[1] >= 2 && st[2] >= 20 {
				rep.Distinct[c.Tid+fmt.Sprint(seed)] = true
				if len(rep.Samples) < 3 {
					rep.Samples = append(rep.Samples, map[string]any{"tid": c.Tid, "source": c.Source, "note": c.Note, "events": st[0], "goroutines": st[1], "query_kinds": st[2]})
				}
			}
		}
		if v[prop] {
			rep.TracesOK++
			continue
		}
		sig, what := prop+":unclassified", "verdict false"
		if ds := diags[c.Tid]; len(ds) > 0 {
			_, _, clause, shape := diagShape(ds[0])
			sig = prop + ":" + clause + ":" + strings.SplitN(shape, "#", 2)[0]
			what = ds[0]
		}
		if r.Crash != "" {
			what += " " + raceSummary(r.Detail)
			sig += ":" + raceSite(r.Detail)
		}
		replay := c.SaveReplay(prop, "readers", readersArgs{G: G, Q: Q, Seed: seed*977 + int64(i)}, map[string]string{"diag.txt": strings.Join(diags[c.Tid], "\n") + "\n" + r.Detail})
		rep.AddViolation(Violation{Prop: prop, Tid: c.Tid, Sig: sig, What: "[" + c.Note + "] " + what, Replay: replay})
	}
	rep.Extra["events_validated"] = events
	rep.Extra["goroutines"] = G
	return rep.Finish()
}

func raceSite(detail string) string {
	for _, l := range strings.Split(detail, "\n") {
		l = strings.TrimSpace(l)
		if strings.HasPrefix(l, "github.com/go-openapi/analysis.") {
			if i := strings.Index(l, "("); i > 0 {
				return strings.TrimPrefix(l[:i], "github.com/go-openapi/analysis.")
			}
		}
	}
	return "unknown-site"
}
func raceSummary(detail string) string { return firstLines(detail, 8) }
