package main

// Running TLC and parsing what it prints.

import (
	"bufio"
	"bytes"
	"context"
	"encoding/json"
	"fmt"
	"io"
	"os"
	"os/exec"
	"path/filepath"
	"regexp"
	"strconv"
	"strings"
	"time"

	"github.com/go-openapi/swag"

	"github.com/go-openapi/spec"
)

func loadSwaggerYAML(b []byte) (*spec.Swagger, error) {
	y, err := swag.BytesToYAMLDoc(b)
	if err != nil {
		return nil, err
	}
	j, err := swag.YAMLToJSON(y)
	if err != nil {
		return nil, err
	}
	sw := &spec.Swagger{}
	if err := json.Unmarshal(j, sw); err != nil {
		return nil, err
	}
	return sw, nil
}

var verifRoot = func() string {
	if v := os.Getenv("VERIF_ROOT"); v != "" {
		return v
	}
	exe, err := os.Executable()
	if err == nil {
		d := filepath.Dir(filepath.Dir(exe))
		if _, e := os.Stat(filepath.Join(d, "spec")); e == nil {
			return d
		}
	}
	return "/verif"
}()

// TLCResult is what a TLC run produced.
type TLCResult struct {
	Verdicts    map[string]map[string]bool // tid -> property -> ok
	Stats       map[string][]int           // tid -> numbers
	Diags       []string
	Generated   int
	Distinct    int
	Depth       int
	OK          bool // TLC finished without error
	Out         string
	InvViolated string
	WallS       float64
}

var (
	reVerdict = regexp.MustCompile(`^<<"VERDICT", "([^"]*)", "([^"]*)", (TRUE|FALSE)>>`)
	reStat    = regexp.MustCompile(`^<<"STAT", "([^"]*)"((?:, -?[0-9]+)*)>>`)
	reStates  = regexp.MustCompile(`^([0-9]+) states generated, ([0-9]+) distinct states found`)
	reDepth   = regexp.MustCompile(`The depth of the complete state graph search is ([0-9]+)`)
	reInv     = regexp.MustCompile(`Invariant ([A-Za-z0-9_]+) is violated`)
)

// scratchDir creates a private run directory under .build (never /tmp: registered commands must not depend on it).
func scratchDir(tag string) (string, error) {
	base := filepath.Join(verifRoot, ".build", "run")
	if err := os.MkdirAll(base, 0o755); err != nil {
		return "", err
	}
	return os.MkdirTemp(base, tag+"-")
}

func copySpecs(dst string) error {
	ents, err := os.ReadDir(filepath.Join(verifRoot, "spec"))
	if err != nil {
		return err
	}
	for _, e := range ents {
		if e.IsDir() {
			continue
		}
		b, err := os.ReadFile(filepath.Join(verifRoot, "spec", e.Name()))
		if err != nil {
			return err
		}
		if err := os.WriteFile(filepath.Join(dst, e.Name()), b, 0o644); err != nil {
			return err
		}
	}
	return nil
}

type TLCOpts struct {
	Module   string // e.g. Trace_Analyzer
	Config   string // cfg file name (default Module.cfg)
	Workers  int
	Timeout  time.Duration
	Extra    []string
	Defines  map[string]string // CONSTANT overrides appended to a copy of the cfg
	HeapGB   int
	Coverage bool
}

// RunTLC runs TLC in dir (which already contains the .tla/.cfg files and any trace file).
func RunTLC(dir string, o TLCOpts) (*TLCResult, error) {
	cfg := o.Config
	if cfg == "" {
		cfg = o.Module + ".cfg"
	}
	if len(o.Defines) > 0 {
		b, err := os.ReadFile(filepath.Join(dir, cfg))
		if err != nil {
			return nil, err
		}
		lines := []string{}
		for _, l := range strings.Split(string(b), "\n") {
			skip := false
			for k := range o.Defines {
				if strings.HasPrefix(strings.TrimSpace(l), "CONSTANT "+k+" ") || strings.HasPrefix(strings.TrimSpace(l), "CONSTANT "+k+"=") {
					skip = true
				}
			}
			if !skip {
				lines = append(lines, l)
			}
		}
		for k, v := range o.Defines {
			lines = append(lines, fmt.Sprintf("CONSTANT %s = %s", k, v))
		}
		cfg = "run_" + cfg
		if err := os.WriteFile(filepath.Join(dir, cfg), []byte(strings.Join(lines, "\n")+"\n"), 0o644); err != nil {
			return nil, err
		}
	}
	if o.Workers <= 0 {
		o.Workers = 8
	}
	if o.Timeout == 0 {
		o.Timeout = 10 * time.Minute
	}
	heap := o.HeapGB
	if heap == 0 {
		heap = 6
	}
	meta := filepath.Join(dir, "meta")
	args := []string{"-XX:+UseParallelGC", fmt.Sprintf("-Xmx%dg", heap), "-Xss512m",
		"-cp", "/opt/veriftools/tla/tla2tools.jar:/opt/veriftools/tla/CommunityModules-deps.jar",
		"tlc2.TLC", "-workers", strconv.Itoa(o.Workers), "-metadir", meta, "-config", cfg}
	if o.Coverage {
		args = append(args, "-coverage", "1")
	}
	args = append(args, o.Extra...)
	args = append(args, o.Module+".tla")
	ctx, cancel := context.WithTimeout(context.Background(), o.Timeout)
	defer cancel()
	cmd := exec.CommandContext(ctx, "java", args...)
	cmd.Dir = dir
	var buf bytes.Buffer
	cmd.Stdout = &buf
	cmd.Stderr = &buf
	t0 := time.Now()
	err := cmd.Run()
	res := parseTLC(buf.String())
	res.WallS = time.Since(t0).Seconds()
	os.WriteFile(filepath.Join(dir, o.Module+".out"), buf.Bytes(), 0o644)
	if ctx.Err() != nil {
		return res, fmt.Errorf("tlc timeout after %s", o.Timeout)
	}
	if err != nil {
		if _, ok := err.(*exec.ExitError); !ok {
			return res, err
		}
	}
	return res, nil
}

func parseTLC(out string) *TLCResult {
	r := &TLCResult{Verdicts: map[string]map[string]bool{}, Stats: map[string][]int{}, Out: out}
	sc := bufio.NewScanner(strings.NewReader(out))
	sc.Buffer(make([]byte, 1<<20), 1<<26)
	finished := false
	hasErr := false
	for sc.Scan() {
		line := sc.Text()
		if strings.HasPrefix(line, "\"<<") {
			if u, err := strconv.Unquote(line); err == nil {
				line = u
			}
		}
		if strings.HasPrefix(line, "<<\"DIAG\"") {
			r.Diags = append(r.Diags, line)
			continue
		}
		if m := reVerdict.FindStringSubmatch(line); m != nil {
			if r.Verdicts[m[1]] == nil {
				r.Verdicts[m[1]] = map[string]bool{}
			}
			v := m[3] == "TRUE"
			if old, seen := r.Verdicts[m[1]][m[2]]; seen {
				v = v && old
			}
			r.Verdicts[m[1]][m[2]] = v
			continue
		}
		if m := reStat.FindStringSubmatch(line); m != nil {
			nums := []int{}
			for _, s := range strings.Split(m[2], ",") {
				s = strings.TrimSpace(s)
				if s == "" {
					continue
				}
				n, _ := strconv.Atoi(s)
				nums = append(nums, n)
			}
			r.Stats[m[1]] = nums
			continue
		}
		if m := reStates.FindStringSubmatch(line); m != nil {
			r.Generated, _ = strconv.Atoi(m[1])
			r.Distinct, _ = strconv.Atoi(m[2])
		}
		if m := reDepth.FindStringSubmatch(line); m != nil {
			r.Depth, _ = strconv.Atoi(m[1])
		}
		if m := reInv.FindStringSubmatch(line); m != nil {
			r.InvViolated = m[1]
		}
		if strings.HasPrefix(line, "Model checking completed. No error has been found") {
			finished = true
		}
		if strings.HasPrefix(line, "Error:") || strings.Contains(line, "TLC threw an unexpected exception") {
			hasErr = true
		}
	}
	r.OK = finished && !hasErr
	return r
}

// writeNDJSON writes one JSON value per line.
func writeNDJSON(path string, recs []json.RawMessage) error {
	f, err := os.Create(path)
	if err != nil {
		return err
	}
	defer f.Close()
	w := bufio.NewWriter(f)
	for _, r := range recs {
		w.Write(bytes.TrimSpace(r))
		w.WriteByte('\n')
	}
	return w.Flush()
}

func tail(s string, n int) string {
	ls := strings.Split(strings.TrimRight(s, "\n"), "\n")
	if len(ls) > n {
		ls = ls[len(ls)-n:]
	}
	return strings.Join(ls, "\n")
}

var _ = io.EOF

// RunTraceValidation validates records with a Trace_* module, sharded over several TLC processes so that no JVM has to
// hold more than shardSize records (a 50k-record file in one process ends in GC thrashing).
func RunTraceValidation(scratch, module string, recs []json.RawMessage, timeout time.Duration) (*TLCResult, error) {
	shardSize := 1200
	if v := os.Getenv("VERIF_SHARD"); v != "" {
		if n, e := strconv.Atoi(v); e == nil && n > 0 {
			shardSize = n
		}
	}
	nsh := (len(recs) + shardSize - 1) / shardSize
	if nsh < 1 {
		nsh = 1
	}
	par := 4
	if nsh < par {
		par = nsh
	}
	wk := nWorkers() / par
	if wk < 2 {
		wk = 2
	}
	results := make([]*TLCResult, nsh)
	errs := make([]error, nsh)
	sem := make(chan struct{}, par)
	done := make(chan int, nsh)
	for i := 0; i < nsh; i++ {
		go func(i int) {
			sem <- struct{}{}
			defer func() { <-sem; done <- i }()
			dir := filepath.Join(scratch, fmt.Sprintf("shard%d", i))
			if err := os.MkdirAll(dir, 0o755); err != nil {
				errs[i] = err
				return
			}
			if err := copySpecs(dir); err != nil {
				errs[i] = err
				return
			}
			lo, hi := i*shardSize, (i+1)*shardSize
			if hi > len(recs) {
				hi = len(recs)
			}
			if err := writeNDJSON(filepath.Join(dir, "trace.ndjson"), recs[lo:hi]); err != nil {
				errs[i] = err
				return
			}
			results[i], errs[i] = RunTLC(dir, TLCOpts{Module: module, Workers: wk, Timeout: timeout, Defines: map[string]string{"K": strconv.Itoa(wk)}, HeapGB: 8})
			if os.Getenv("VERIF_KEEP") == "" {
				os.Remove(filepath.Join(dir, "trace.ndjson"))
			}
		}(i)
	}
	for i := 0; i < nsh; i++ {
		<-done
	}
	merged := &TLCResult{Verdicts: map[string]map[string]bool{}, Stats: map[string][]int{}, OK: true}
	var firstErr error
	for i := 0; i < nsh; i++ {
		if errs[i] != nil && firstErr == nil {
			firstErr = errs[i]
		}
		r := results[i]
		if r == nil {
			merged.OK = false
			continue
		}
		for t, v := range r.Verdicts {
			merged.Verdicts[t] = v
		}
		for t, v := range r.Stats {
			merged.Stats[t] = v
		}
		merged.Diags = append(merged.Diags, r.Diags...)
		merged.Generated += r.Generated
		merged.Distinct += r.Distinct
		if r.WallS > merged.WallS {
			merged.WallS = r.WallS
		}
		if !r.OK {
			merged.OK = false
			merged.Out += r.Out
		}
	}
	return merged, firstErr
}
