package main

// C17 / C18: analysis.Mixin against Mixin.tla (state after every mixin compared by TLC).

import (
	"encoding/json"
	"fmt"
	"math/rand"
	"os"
	"path/filepath"
	"strconv"
	"strings"
	"time"
)

func init() {
	checks["C17"] = checkMixin
	checks["C18"] = checkMixin
}

// genMixinDoc builds one abstract document of a mixin history; o is the owner tag.
func genMixinDoc(g *Gen, r *rand.Rand, o string, keyPool []string, pathPool []string, idPool []string) *Node {
	d := NewNode()
	d.At["swagger"] = "2.0"
	sub := func(pool []string) []string {
		out := []string{}
		for _, k := range pool {
			if r.Intn(3) == 0 {
				out = append(out, k)
			}
		}
		return out
	}
	sect := func(name string, mk func(k string) *Node) {
		ks := sub(keyPool)
		if len(ks) == 0 {
			return
		}
		n := NewNode()
		for _, k := range ks {
			n.Ch[k] = mk(k)
		}
		d.Ch[name] = n
	}
	sect("definitions", func(string) *Node { n := leaf("object"); n.At["title"] = o; return n })
	sect("parameters", func(string) *Node { n := leaf("string"); n.At["in"] = "query"; n.At["name"] = o; return n })
	sect("responses", func(string) *Node { n := NewNode(); n.At["description"] = o; return n })
	sect("securityDefinitions", func(string) *Node {
		n := NewNode()
		n.At["type"], n.At["in"], n.At["name"] = "apiKey", "header", o
		return n
	})
	// paths with operations under random methods; ids unique within the document
	if r.Intn(5) > 0 {
		paths := NewNode()
		used := map[string]bool{}
		for _, p := range sub(pathPool) {
			pi := NewNode()
			perm := r.Perm(len(allMethods))
			nops := r.Intn(4)
			if nops == 0 {
				// a path item without any operation: shared parameters only, or an extension only, or nothing at all
				switch r.Intn(3) {
				case 0:
					q := leaf("string")
					q.At["in"], q.At["name"] = "query", o
					pi.Ch["parameters"] = listNode(q)
				case 1:
					pi.At["x-a"] = o
				}
			}
			for j, nm := 0, nops; j < nm; j++ {
				op := NewNode()
				op.At["summary"] = o
				if r.Intn(4) > 0 {
					id := idPool[r.Intn(len(idPool))]
					if !used[id] {
						used[id] = true
						op.At["operationId"] = id
					}
				}
				resp := NewNode()
				ok := NewNode()
				ok.At["description"] = "ok"
				resp.Ch["200"] = ok
				op.Ch["responses"] = resp
				pi.Ch[allMethods[perm[j]]] = op
			}
			paths.Ch[p] = pi
		}
		if len(paths.Ch) > 0 || r.Intn(2) == 0 {
			d.Ch["paths"] = paths
		}
	}
	// lists
	pickSeq := func(pool []string) []string {
		out := []string{}
		for _, i := range r.Perm(len(pool)) {
			if r.Intn(2) == 0 {
				out = append(out, pool[i])
			}
		}
		return out
	}
	if s := pickSeq([]string{"application/json", "application/xml", "text/plain"}); len(s) > 0 {
		d.At["consumes"] = s
	}
	if s := pickSeq([]string{"application/json", "text/csv"}); len(s) > 0 {
		d.At["produces"] = s
	}
	if s := pickSeq([]string{"http", "https", "ws"}); len(s) > 0 {
		d.At["schemes"] = s
	}
	if ts := pickSeq([]string{"t1", "t2", "t3"}); len(ts) > 0 {
		el := []*Node{}
		for _, t := range ts {
			n := NewNode()
			n.At["name"], n.At["description"] = t, o
			el = append(el, n)
		}
		d.Ch["tags"] = listNode(el...)
	}
	if r.Intn(2) == 0 {
		el := []*Node{}
		for i, n := 0, 1+r.Intn(2); i < n; i++ {
			req := NewNode()
			switch r.Intn(4) {
			case 0:
				req.At["k1"] = []string{}
			case 1:
				req.At["k1"] = []string{[]string{"read", "write"}[r.Intn(2)]}
			case 2:
				req.At["k2"] = []string{}
			default:
				req.At["k1"] = []string{}
				req.At["k2"] = []string{"read"}
			}
			dup := false
			for _, e := range el {
				if e.Equal(req) {
					dup = true
				}
			}
			if !dup {
				el = append(el, req)
			}
		}
		d.Ch["security"] = listNode(el...)
	}
	// scalars, extensions and optional parts, each independently present or absent - or, one document in six, ALL the top-level
	// details present (host, basePath, every info scalar, contact, license, externalDocs) with only the nested ones left to chance
	complete := r.Intn(6) == 0
	coin := func() bool { return complete || r.Intn(2) == 0 }
	if coin() {
		d.At["host"] = o + ".example.com"
	}
	if coin() {
		d.At["basePath"] = "/" + o
	}
	ext := func(n *Node) {
		for _, x := range []string{"x-a", "x-b", "X-Mixed"} { // (extension keys are kept as spelled)
			if r.Intn(3) == 0 {
				n.At[x] = o
			}
		}
	}
	ext(d)
	if complete || r.Intn(3) > 0 {
		info := NewNode()
		for _, a := range []string{"title", "description", "version", "termsOfService"} {
			if coin() {
				info.At[a] = o
			}
		}
		ext(info)
		if coin() {
			c := NewNode()
			for _, a := range []string{"name", "url", "email"} {
				if r.Intn(2) == 0 {
					c.At[a] = o
				}
			}
			ext(c)
			info.Ch["contact"] = c
		}
		if coin() {
			l := NewNode()
			for _, a := range []string{"name", "url"} {
				if r.Intn(2) == 0 {
					l.At[a] = o
				}
			}
			ext(l)
			info.Ch["license"] = l
		}
		d.Ch["info"] = info
	}
	if complete || r.Intn(3) == 0 {
		e := NewNode()
		for _, a := range []string{"description", "url"} {
			if coin() {
				e.At[a] = o
			}
		}
		d.Ch["externalDocs"] = e
	}
	return d
}

type mixinExport struct {
	Docs []*Node `json:"docs"`
}

func buildMixinCases(tier string, seed int64, scratch string, rep *Report) []*Case {
	cases := []*Case{}
	mk := func(tid, source, note string, docs []*Node, g *Gen) {
		b := &Bundle{Docs: map[string]*Node{}, Files: map[string]string{}}
		for i, d := range docs {
			id := "d" + strconv.Itoa(i)
			b.Docs[id] = d
			b.Files[id] = id + ".json"
		}
		bindPlaceholders(g, b.Docs)
		c := &Case{Tid: tid, Source: source, Seed: seed, Bundle: b, Names: g.Names.ToConcrete, Note: note}
		if err := c.Materialize(filepath.Join(scratch, tid)); err != nil {
			rep.HarnessErr = append(rep.HarnessErr, err.Error())
			return
		}
		if err := c.RoundTrip(); err != nil {
			rep.HarnessErr = append(rep.HarnessErr, err.Error())
			return
		}
		cases = append(cases, c)
	}
	// (1) histories enumerated by TLC (MC_Mixin), per family; all invariants checked there
	fams := []string{"keyed", "lists", "scalar", "info", "get", "put", "post", "delete", "options", "head", "patch"}
	sample := 120
	if tier == "thorough" {
		sample = 2500
	}
	mcStates, mcGen := 0, 0
	famInfo := map[string]any{}
	for fi, fam := range fams {
		run, lines, err := runMC("MC_Mixin", map[string]string{"MaxMix": "2", "Family": `"` + fam + `"`, "Export": "TRUE"}, 20*time.Minute, nWorkers())
		if err != nil || run == nil || !run.OK {
			t := ""
			if run != nil {
				t = "invariant " + run.InvViolated + "\n" + run.Tail
			}
			rep.HarnessErr = append(rep.HarnessErr, fmt.Sprintf("MC_Mixin family %s: %v %s", fam, err, t))
			continue
		}
		mcStates += run.Distinct
		mcGen += run.Generated
		famInfo[fam] = map[string]int{"distinct_states": run.Distinct, "histories_exported": run.Exported}
		r := rand.New(rand.NewSource(seed*31 + int64(fi)))
		r.Shuffle(len(lines), func(i, j int) { lines[i], lines[j] = lines[j], lines[i] })
		n := 0
		for _, l := range lines {
			if n >= sample {
				break
			}
			var ex mixinExport
			if e := json.Unmarshal([]byte(l), &ex); e != nil || len(ex.Docs) == 0 {
				rep.HarnessErr = append(rep.HarnessErr, "MC_Mixin export not parseable")
				break
			}
			if len(ex.Docs) < 2 && n > 5 {
				continue
			}
			g := NewGen(seed*7+int64(n), GenOpts{PlainNames: n%2 == 0})
			mk(fmt.Sprintf("m%s%d", fam[:2], n), "tlc", "family="+fam, ex.Docs, g)
			n++
		}
	}
	lastMC["mixin"] = &mcRun{Module: "MC_Mixin", Distinct: mcStates, Generated: mcGen, OK: true}
	rep.Extra["exhaustive_model_run"] = map[string]any{"module": "MC_Mixin", "families": famInfo, "distinct_states": mcStates,
		"invariants": []string{"InvFirstWins", "InvLists", "InvScalars", "InvPrimaryKept", "InvCollisions", "InvIds", "InvFoldIsAll"}, "action_property": "Monotone"}
	// (2) random mixed histories: all sections at once, 0..3 mixins
	nr := 150
	if tier == "thorough" {
		nr = 3000
	}
	for i := 0; i < nr; i++ {
		r := rand.New(rand.NewSource(seed*100003 + int64(i)))
		g := NewGen(seed*100003+int64(i), GenOpts{PlainNames: i%3 == 0})
		n := r.Intn(4)
		docs := []*Node{}
		for j := 0; j <= n; j++ {
			docs = append(docs, genMixinDoc(g, r, "d"+strconv.Itoa(j), []string{"N_1", "N_2", "N_3"}, []string{"P_1", "P_2", "P_3"}, []string{"opA", "opB", "opC", "opD"}))
		}
		mk(fmt.Sprintf("r%d", i), "gen", "random mixed history", docs, g)
	}
	return cases
}

func checkMixin(prop, tier string, seed int64) int {
	rep := NewReport(prop, tier, seed)
	rep.Rule = "histories <primary, m1..mn> (n <= 3): TLC-enumerated per-section families (keyed sections, lists, scalars/extensions, info parts, operation ids under each of the seven methods) + seeded random histories mixing all sections; " +
		"non-trivial: at least one mixin and (C17) at least one collision or filled field, (C18) at least one operation id in the result; distinct by hash of the abstract history"
	rep.Assumptions = []string{"Mixin(primary, m1..mj) on fresh copies gives the state after j mixins (the function is deterministic under the precondition of C18)",
		"projection JSON->tree (round-trip self-checked)", "TLC, SANY, Json module"}
	scratch, err := scratchDir("mixin")
	if err != nil {
		rep.HarnessErr = append(rep.HarnessErr, err.Error())
		return rep.Finish()
	}
	if os.Getenv("VERIF_KEEP") == "" {
		defer os.RemoveAll(scratch)
	}
	cases := buildMixinCases(tier, seed, filepath.Join(scratch, "cases"), rep)
	reqs := make([]*Req, len(cases))
	for i, c := range cases {
		reqs[i] = c.Req("mixin", nil)
	}
	pool := &Pool{Exe: selfExe(), N: nWorkers(), Timeout: 20 * time.Second}
	resps := pool.Run(reqs)
	recs := []json.RawMessage{}
	for _, r := range resps {
		if r.Err == "" && r.Crash == "" && r.Rec != nil {
			recs = append(recs, r.Rec)
		}
	}
	tl, err := RunTraceValidation(scratch, "Trace_Mixin", recs, 20*time.Minute)
	if err != nil || tl == nil || !tl.OK {
		rep.HarnessErr = append(rep.HarnessErr, fmt.Sprintf("Trace_Mixin: %v", err))
		if tl != nil {
			rep.HarnessErr = append(rep.HarnessErr, tail(stripExports(tl.Out), 20))
		}
		return rep.Finish()
	}
	rep.States, rep.Transitions = tl.Distinct, tl.Generated
	if mc := lastMC["mixin"]; mc != nil {
		rep.States += mc.Distinct
		rep.Transitions += mc.Generated
	}
	diags := map[string][]string{}
	for _, d := range tl.Diags {
		tid, p, _, _ := diagShape(d)
		if p == prop {
			diags[tid] = append(diags[tid], d)
		}
	}
	for i, c := range cases {
		r := resps[i]
		if r.Crash != "" {
			replay := c.SaveReplay(prop, "mixin", nil, map[string]string{"detail.txt": r.Detail})
			rep.AddViolation(Violation{Prop: prop, Tid: c.Tid, Sig: prop + ":crash." + r.Crash, What: "Mixin crashed the worker: " + firstLines(r.Detail, 3), Replay: replay})
			rep.Evaluations++
			continue
		}
		if r.Err != "" {
			rep.HarnessErr = append(rep.HarnessErr, c.Tid+": "+r.Err)
			continue
		}
		v, ok := tl.Verdicts[c.Tid]
		if !ok {
			rep.HarnessErr = append(rep.HarnessErr, "no verdict for "+c.Tid)
			continue
		}
		rep.Evaluations++
		st := tl.Stats[c.Tid]
		if len(st) >= 3 && st[0] > 1 && ((prop == "C17") || st[2] > 0) {
			h := ""
			for _, id := range sortedKeys(c.Bundle.Docs) {
				h += c.Bundle.Docs[id].Hash()
			}
			rep.Distinct[hash8(h)] = true
			if len(rep.Samples) < 3 {
				rep.Samples = append(rep.Samples, map[string]any{"tid": c.Tid, "source": c.Source, "note": c.Note, "documents": st[0], "collisions_reported": st[1], "ids_in_result": st[2]})
			}
		}
		if v[prop] {
			rep.TracesOK++
			continue
		}
		sig, what := prop+":unclassified", "verdict false"
		if ds := diags[c.Tid]; len(ds) > 0 {
			_, _, clause, _ := diagShape(ds[0])
			sig = prop + ":" + clause + ":" + mixinDiffKeys(ds[0])
			what = ds[0]
			if len(what) > 500 {
				what = what[:500]
			}
		}
		replay := c.SaveReplay(prop, "mixin", nil, map[string]string{"diag.txt": strings.Join(diags[c.Tid], "\n"), "record.json": string(r.Rec)})
		rep.AddViolation(Violation{Prop: prop, Tid: c.Tid, Sig: sig, What: "[" + c.Note + "] " + what, Replay: replay})
	}
	if tier == "thorough" || os.Getenv("VERIF_SUITE") != "" {
		suiteMixinComponent(rep, scratch, prop)
	}
	return rep.Finish()
}

// mixinDiffKeys: the set of differing top-level members printed by Trace_Mixin's DIAG (last {...} of the line).
func mixinDiffKeys(diag string) string {
	i := strings.LastIndex(diag, "{")
	j := strings.LastIndex(diag, "}")
	if i < 0 || j < i {
		return ""
	}
	ks := []string{}
	for _, q := range reQuoted.FindAllStringSubmatch(diag[i:j], -1) {
		ks = append(ks, q[1])
	}
	if len(ks) > 4 {
		ks = ks[:4]
	}
	return strings.Join(ks, "+")
}
