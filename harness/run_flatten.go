package main

// Worker side of the Flatten checks (C01..C10): runs analysis.Flatten on a bundle and records
// the initial bundle, the rewritten document, the outcome, the second pass (idempotence), the state of the
// analyzer that was passed in versus a fresh analysis, and document loads (with optional fault injection).

import (
	"bytes"
	"crypto/sha256"
	"encoding/hex"
	"encoding/json"
	"errors"
	"fmt"
	"os"
	"path/filepath"
	"sort"
	"strings"
	"sync"

	"github.com/go-openapi/analysis"
	"github.com/go-openapi/spec"
)

func init() { workerOps["flatten"] = opFlatten }

type flattenOpts struct {
	Minimal         bool `json:"minimal"`
	Expand          bool `json:"expand"`
	RemoveUnused    bool `json:"removeUnused"`
	KeepNames       bool `json:"keepNames"`
	ContinueOnError bool `json:"continueOnError"`
}

func (o flattenOpts) Mode() string {
	switch {
	case o.Expand: // "Flatten with Expand": the Minimal flag does not change what the properties demand of an Expand run
		return "expand"
	case o.Minimal:
		return "min"
	}
	return "full"
}

func (o flattenOpts) String() string {
	s := o.Mode()
	if o.Expand && o.Minimal {
		s += "+minimal"
	}
	if o.RemoveUnused {
		s += "+ru"
	}
	if o.KeepNames {
		s += "+keep"
	}
	if o.ContinueOnError {
		s += "+cont"
	}
	return s
}

type flattenArgs struct {
	Opts    flattenOpts `json:"opts"`
	InW     bool        `json:"inW"`
	Anon    bool        `json:"anon"`    // the bundle holds anonymous pointers (naming re-targets dependants: not modelled constructively)
	FailAt  int         `json:"failAt"`  // fail the k-th document load (0 = none)
	Vanish  bool        `json:"vanish"`  // flatten once, delete the auxiliary documents, then flatten again (the recorded run): state kept between calls must not hide the loss
	Second  bool        `json:"second"`  // run the idempotence pass
	Rerun   bool        `json:"rerun"`   // run again from the files and compare bytes (C05 reproducibility)
	Getters bool        `json:"getters"` // record the analyzer state (C10)
	Light   bool        `json:"light"`   // do not record trees (crash / fault campaigns)
	Phases  bool        `json:"phases"`  // record a snapshot of the document after every phase / loop round (verif hooks)
}

type flattenRec struct {
	Tid        string            `json:"tid"`
	Mode       string            `json:"mode"`
	RU         bool              `json:"ru"`
	Keep       bool              `json:"keep"`
	Cont       bool              `json:"cont"`
	InW        bool              `json:"inW"`
	Anon       bool              `json:"anon"`
	Bundle     map[string]*Node  `json:"bundle"`
	XKeys      []string          `json:"xkeys"`
	OK         bool              `json:"ok"`
	Err        string            `json:"err"`
	Doc        *Node             `json:"doc"`
	Hash       string            `json:"hash"`
	Second     bool              `json:"second"`
	OK2        bool              `json:"ok2"`
	Err2       string            `json:"err2"`
	Doc2       *Node             `json:"doc2"`
	Same2      bool              `json:"same2"`
	Rerun      bool              `json:"rerun"`
	SameRerun  bool              `json:"sameRerun"`
	HasGetters bool              `json:"hasGetters"`
	Getters    *fullAnswers      `json:"getters"`
	Fresh      *fullAnswers      `json:"fresh"`
	Loads      int               `json:"loads"`
	FailAt     int               `json:"failAt"`
	LoadFailed bool              `json:"loadFailed"`
	Fold       map[string]string `json:"fold"`
	Crash      string            `json:"crash"`
	Phases     []phaseSnap       `json:"phases"`
	Events     []stepEvent       `json:"events"`
}

// phaseSnap is the document as it stands after a phase of Flatten (hook events phase.* / round.*).
type phaseSnap struct {
	Ev  string `json:"ev"`
	Doc *Node  `json:"doc"`
}

// stepEvent is a fine-grained hook event (import.new, name, pointer.*, strip.one, reload) with its arguments.
type stepEvent struct {
	Ev      string     `json:"ev"`
	Target  []string   `json:"target"`  // import.*: the remote target <<docId, tok...>> ; pointer.* / strip.one: the $ref involved
	Name    string     `json:"name"`    // import.* / name: the definition name chosen
	Keys    [][]string `json:"keys"`    // holder keys (paths in the root)
	Parents [][]string `json:"parents"` // strip.one: the parents in the order the code processes them
	At      int        `json:"at"`      // number of phase snapshots taken before this event
	Oai     bool       `json:"oai"`     // import.new / name: the name was deduplicated (carries the OAIGen suffix)
}

type fullAnswers struct {
	Index *analyzerAns `json:"index"`
	Ops   []string     `json:"ops"`
	Misc  []string     `json:"misc"`
}

// ---- load counting / fault injection through the package-level loader of go-openapi/spec -----------------

var (
	loaderMu     sync.Mutex
	origLoader   func(string) (json.RawMessage, error)
	loadCount    int
	loadFailAt   int
	loadFailed   bool
	errInjected  = errors.New("verif: injected load failure")
	loaderHooked bool
)

func hookLoader() {
	if loaderHooked {
		return
	}
	loaderHooked = true
	origLoader = spec.PathLoader
	spec.PathLoader = func(p string) (json.RawMessage, error) {
		loaderMu.Lock()
		loadCount++
		n := loadCount
		fail := loadFailAt > 0 && n == loadFailAt
		if fail {
			loadFailed = true
		}
		loaderMu.Unlock()
		if fail {
			return nil, errInjected
		}
		return origLoader(p)
	}
}

func resetLoader(failAt int) {
	loaderMu.Lock()
	loadCount, loadFailAt, loadFailed = 0, failAt, false
	loaderMu.Unlock()
}

func sha(b []byte) string {
	h := sha256.Sum256(b)
	return hex.EncodeToString(h[:])
}

func fullAnswersOf(pj *Projector, an *analysis.Spec, sw *spec.Swagger) *fullAnswers {
	fa := &fullAnswers{Index: collectAnswers(pj, an, sw)}
	for m, byPath := range an.Operations() {
		for p, op := range byPath {
			id := ""
			if op != nil {
				id = op.ID
			}
			fa.Ops = append(fa.Ops, m+" "+pj.Names.Abs(p)+" "+pj.Names.scalarStr(id))
		}
	}
	sort.Strings(fa.Ops)
	add := func(k string, vs []string) {
		vs = append([]string{}, vs...)
		sort.Strings(vs)
		for i := range vs {
			vs[i] = pj.Names.scalarStr(vs[i])
		}
		fa.Misc = append(fa.Misc, k+"="+strings.Join(vs, ","))
	}
	add("consumes", an.RequiredConsumes())
	add("produces", an.RequiredProduces())
	add("schemes", an.RequiredSecuritySchemes())
	ids := []string{}
	for _, id := range an.OperationIDs() {
		ids = append(ids, id)
	}
	add("opids", mapStrings(ids, func(s string) string { return hash8(s) }))
	// look-ups by id answer from the same index as the listings
	byName := []string{}
	count := map[string]int{}
	for _, byPath := range an.Operations() {
		for _, op := range byPath {
			if op != nil {
				count[op.ID]++
			}
		}
	}
	for _, id := range ids {
		if count[id] != 1 {
			continue // an id shared by several operations: which one a look-up finds is not determined
		}
		if m, p, op, ok := an.OperationForName(id); ok && op != nil {
			byName = append(byName, hash8(id)+"@"+m+" "+pj.Names.Abs(p))
		} else {
			byName = append(byName, hash8(id)+"@-")
		}
	}
	add("byname", byName)
	paths := []string{}
	for p := range an.AllPaths() {
		paths = append(paths, pj.Names.Abs(p))
	}
	add("paths", paths)
	if fa.Ops == nil {
		fa.Ops = []string{}
	}
	return fa
}

func emptyFull() *fullAnswers {
	return &fullAnswers{Ops: []string{}, Misc: []string{}, Index: &analyzerAns{Refs: map[string][][]string{}, Uniq: [][]string{},
		Patterns: map[string][]kv{}, Enums: map[string][]kv{}, Schemas: []schemaEntry{}, AllOfs: [][]string{}}}
}

func mapStrings(xs []string, f func(string) string) []string {
	out := make([]string, len(xs))
	for i, x := range xs {
		out[i] = f(x)
	}
	return out
}

func foldClasses(names []string, nt *NameTable) map[string]string {
	out := map[string]string{}
	reps := []string{}
	for _, n := range names {
		c := nt.Conc(n)
		found := false
		for _, r := range reps {
			if strings.EqualFold(nt.Conc(r), c) {
				out[n] = r
				found = true
				break
			}
		}
		if !found {
			reps = append(reps, n)
			out[n] = n
		}
	}
	return out
}

func defLabels(n *Node) []string {
	out := []string{}
	if d := n.Ch["definitions"]; d != nil {
		for k := range d.Ch {
			out = append(out, k)
		}
	}
	sort.Strings(out)
	return out
}

// warmAnalyzer, when set, is called with the analyzer before it is handed to Flatten (every getter is asked once, so that anything
// the analyzer memoizes on first use exists before the document changes: C10)
var warmAnalyzer func(an *analysis.Spec, sw *spec.Swagger)

func flattenOnce(root string, o flattenOpts) (*spec.Swagger, *analysis.Spec, error, error) {
	sw, err := loadSwagger(root)
	if err != nil {
		return nil, nil, nil, err
	}
	an := analysis.New(sw)
	if warmAnalyzer != nil {
		warmAnalyzer(an, sw)
	}
	ferr := analysis.Flatten(analysis.FlattenOpts{Spec: an, BasePath: root, Minimal: o.Minimal, Expand: o.Expand,
		RemoveUnused: o.RemoveUnused, KeepNames: o.KeepNames, ContinueOnError: o.ContinueOnError})
	return sw, an, ferr, nil
}

func opFlatten(req *Req) (any, map[string]string, error) {
	var args flattenArgs
	if err := json.Unmarshal(req.Args, &args); err != nil {
		return nil, nil, err
	}
	hookLoader()
	names := NewNameTable()
	for p, c := range req.Names {
		names.Bind(p, c)
	}
	names.rebuild()
	pj := &Projector{Names: names, Files: &FileTable{Paths: req.Files}}
	o := args.Opts
	rec := &flattenRec{Tid: req.ID, Mode: o.Mode(), RU: o.RemoveUnused, Keep: o.KeepNames, Cont: o.ContinueOnError, InW: args.InW, Anon: args.Anon,
		Bundle: map[string]*Node{}, FailAt: args.FailAt, Crash: "none", Second: false, Fold: map[string]string{}, XKeys: []string{},
		Doc: NewNode(), Doc2: NewNode(), Getters: emptyFull(), Fresh: emptyFull()}

	// initial bundle in the serialization normal form of the spec model
	if !args.Light {
		ids := make([]string, 0, len(req.Files))
		for id := range req.Files {
			ids = append(ids, id)
		}
		sort.Strings(ids)
		for _, id := range ids {
			sw0, err := loadSwagger(req.Files[id])
			if err != nil {
				return nil, nil, fmt.Errorf("load %s: %w", id, err)
			}
			b, _ := json.Marshal(sw0)
			n, err := pj.ProjectBytes(b, id)
			if err != nil {
				return nil, nil, err
			}
			rec.Bundle[id] = n
		}
	}

	rec.Phases, rec.Events = []phaseSnap{}, []stepEvent{}
	if args.Phases && !args.Light {
		analysis.VerifHook = func(ev string, doc *spec.Swagger, hargs ...string) {
			if strings.HasPrefix(ev, "phase.") || strings.HasPrefix(ev, "round.") {
				if b, e := json.Marshal(doc); e == nil {
					if n, e2 := pj.ProjectBytes(b, "root"); e2 == nil {
						rec.Phases = append(rec.Phases, phaseSnap{Ev: ev, Doc: n})
					}
				}
				return
			}
			se := stepEvent{Ev: ev, Target: []string{}, Keys: [][]string{}, Parents: [][]string{}, At: len(rec.Phases)}
			switch ev {
			case "import.new", "import.known":
				se.Target = pj.ParseRef(hargs[0], "root")
				se.Name = names.Abs(hargs[1])
				se.Oai = strings.Contains(hargs[1], "OAIGen")
				for _, k := range strings.Split(hargs[2], "\x00") {
					se.Keys = append(se.Keys, parseKey(pj, k))
				}
			case "name":
				se.Keys = [][]string{pj.ParseRef(hargs[0], "root")[1:]}
				se.Name = names.Abs(hargs[1])
				se.Oai = strings.Contains(hargs[1], "OAIGen")
			case "pointer.top", "pointer.named", "pointer.expanded":
				se.Keys = [][]string{parseKey(pj, hargs[0])}
				se.Target = pj.ParseRef(hargs[1], "root")
			case "strip.one":
				se.Keys = [][]string{parseKey(pj, hargs[0])}
				se.Target = pj.ParseRef(hargs[1], "root")
				for _, p := range strings.Split(hargs[2], "\x00") {
					se.Parents = append(se.Parents, parseKey(pj, p))
				}
			case "reload":
			default:
				return
			}
			rec.Events = append(rec.Events, se)
		}
	}
	if args.Vanish {
		if _, _, _, e := flattenOnce(req.Files["root"], o); e != nil {
			return nil, nil, fmt.Errorf("load root: %w", e)
		}
		for id, f := range req.Files {
			if id != "root" {
				os.Remove(f)
			}
		}
	}
	resetLoader(args.FailAt)
	if args.Getters {
		warmAnalyzer = func(an *analysis.Spec, sw *spec.Swagger) { fullAnswersOf(pj, an, sw) }
	}
	sw, an, ferr, err := flattenOnce(req.Files["root"], o)
	warmAnalyzer = nil
	analysis.VerifHook = nil
	if err != nil {
		return nil, nil, fmt.Errorf("load root: %w", err)
	}
	loaderMu.Lock()
	rec.Loads, rec.LoadFailed = loadCount, loadFailed
	loaderMu.Unlock()
	resetLoader(0)
	rec.OK = ferr == nil
	if ferr != nil {
		rec.Err = ferr.Error()
		if len(rec.Err) > 300 {
			rec.Err = rec.Err[:300]
		}
	}
	out, merr := json.Marshal(sw)
	if merr != nil {
		return nil, nil, fmt.Errorf("marshal flattened: %w", merr)
	}
	rec.Hash = sha(out)
	if args.Light {
		return rec, names.ToConcrete, nil
	}
	doc, err := pj.ProjectBytes(out, "root")
	if err != nil {
		return nil, nil, err
	}
	rec.Doc = doc
	all := append(defLabels(doc), defLabels(rec.Bundle["root"])...)
	rec.Fold = foldClasses(all, names)

	if rec.OK && args.Getters {
		rec.HasGetters = true
		rec.Getters = fullAnswersOf(pj, an, sw)
		rec.Fresh = fullAnswersOf(pj, analysis.New(sw), sw)
	}

	if rec.OK && args.Second {
		rec.Second = true
		flat := filepath.Join(filepath.Dir(req.Files["root"]), "root.flattened."+req.ID+".json")
		if err := os.WriteFile(flat, out, 0o644); err != nil {
			return nil, nil, err
		}
		sw2, _, ferr2, err := flattenOnce(flat, o)
		if err != nil {
			return nil, nil, fmt.Errorf("reload flattened: %w", err)
		}
		rec.OK2 = ferr2 == nil
		if ferr2 != nil {
			rec.Err2 = ferr2.Error()
		}
		out2, _ := json.Marshal(sw2)
		rec.Same2 = bytes.Equal(out, out2)
		if d2, err := pj.ProjectBytes(out2, "root"); err == nil {
			rec.Doc2 = d2
		}
	}
	if rec.OK && args.Rerun {
		rec.Rerun = true
		sw3, _, ferr3, err := flattenOnce(req.Files["root"], o)
		if err != nil {
			return nil, nil, err
		}
		out3, _ := json.Marshal(sw3)
		rec.SameRerun = ferr3 == nil && bytes.Equal(out, out3)
	}
	set := map[string]bool{}
	for _, k := range pj.XKeys(doc) {
		set[k] = true
	}
	for _, n := range rec.Bundle {
		for _, k := range pj.XKeys(n) {
			set[k] = true
		}
	}
	for k := range set {
		rec.XKeys = append(rec.XKeys, k)
	}
	sort.Strings(rec.XKeys)
	return rec, names.ToConcrete, nil
}
