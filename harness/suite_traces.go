package main

// S3: the repository's own test-suite is run in a scratch copy with -tags verif and VERIF_TRACE_DIR, so that every Flatten
// and Mixin call the tests make is recorded through the hooks; the recorded calls are turned into the same records the
// campaigns produce and validated by TLC (Mixin: C17/C18 verdicts; Flatten: step conformance and phase lemmas, reported as notes
// because the fixtures are not known to be members of W).

import (
	"bufio"
	"encoding/json"
	"fmt"
	"os"
	"os/exec"
	"path/filepath"
	"sort"
	"strings"
	"time"
)

type suiteEvent struct {
	Seq  int             `json:"seq"`
	Ev   string          `json:"ev"`
	Args []string        `json:"args"`
	Doc  json.RawMessage `json:"doc"`
}

// runSuiteTraced copies the repository to a scratch directory outside /repo and /verif, runs the root package's tests with the
// hooks writing to a trace directory, and returns the events per test process. The scratch copy is removed before returning.
func runSuiteTraced() ([][]suiteEvent, string, error) {
	tmp, err := os.MkdirTemp("", "verif-s3-")
	if err != nil {
		return nil, "", err
	}
	defer os.RemoveAll(tmp)
	copyRepo := exec.Command("bash", "-c", fmt.Sprintf("mkdir -p %s/repo %s/trace && cd %s && tar --exclude=.git -cf - . | tar -xf - -C %s/repo", tmp, tmp, repoDir(), tmp))
	if out, err := copyRepo.CombinedOutput(); err != nil {
		return nil, "", fmt.Errorf("copy repo: %v %s", err, out)
	}
	cmd := exec.Command("go", "test", "-tags", "verif", "-count=1", "-vet=off", "-timeout", "20m", ".")
	cmd.Dir = filepath.Join(tmp, "repo")
	cmd.Env = append(os.Environ(), "VERIF_TRACE_DIR="+filepath.Join(tmp, "trace"), "GOFLAGS=-mod=mod", "GOPROXY=off", "GOSUMDB=off", "GOTOOLCHAIN=local")
	out, _ := cmd.CombinedOutput() // TestFlatten_RemoteAbsolute fails offline: expected
	files, _ := filepath.Glob(filepath.Join(tmp, "trace", "*.ndjson"))
	sort.Strings(files)
	all := [][]suiteEvent{}
	for _, f := range files {
		fh, err := os.Open(f)
		if err != nil {
			continue
		}
		evs := []suiteEvent{}
		sc := bufio.NewScanner(fh)
		sc.Buffer(make([]byte, 1<<20), 1<<28)
		for sc.Scan() {
			var e suiteEvent
			if json.Unmarshal(sc.Bytes(), &e) == nil {
				evs = append(evs, e)
			}
		}
		fh.Close()
		all = append(all, evs)
	}
	return all, tail(string(out), 3), nil
}

// suiteMixinRecords builds Trace_Mixin records from the mixin.* events of the suite.
func suiteMixinRecords(procs [][]suiteEvent) []*mixinRec {
	out := []*mixinRec{}
	for pi, evs := range procs {
		var cur *mixinRec
		var pj *Projector
		xs := map[string]bool{}
		flush := func() {
			if cur != nil && len(cur.Docs) == len(cur.Results) && len(cur.Docs) > 0 {
				cur.XA = []string{}
				for k := range xs {
					cur.XA = append(cur.XA, k)
				}
				sort.Strings(cur.XA)
				out = append(out, cur)
			}
			cur = nil
		}
		proj := func(raw json.RawMessage) *Node {
			n, err := pj.ProjectBytes(raw, "root")
			if err != nil {
				return NewNode()
			}
			xNames(pj, n, xs)
			return n
		}
		for _, e := range evs {
			switch e.Ev {
			case "mixin.start":
				flush()
				pj = &Projector{Names: NewNameTable(), Files: &FileTable{Paths: map[string]string{}}}
				xs = map[string]bool{}
				cur = &mixinRec{Tid: fmt.Sprintf("x%dm%d", pi, len(out)), Docs: []*Node{proj(e.Doc)}}
				// the state after 0 mixins is the primary once its sections are initialised: same document modulo empty sections
				cur.Results = []*Node{cur.Docs[0]}
				cur.Skipped = []int{0}
				cur.Panicked = []bool{false}
			case "mixin.doc":
				if cur != nil {
					cur.Docs = append(cur.Docs, proj(e.Doc))
				}
			case "mixin.step":
				if cur != nil && len(e.Args) >= 2 {
					n := 0
					fmt.Sscanf(e.Args[1], "%d", &n)
					cur.Results = append(cur.Results, proj(e.Doc))
					cur.Skipped = append(cur.Skipped, n)
					cur.Panicked = append(cur.Panicked, false)
				}
			case "flatten.start":
				flush()
			}
		}
		flush()
	}
	return out
}

// suiteFlattenRecords builds Trace_Flatten-like records (phases and step events only) from the flatten events of the suite.
func suiteFlattenRecords(procs [][]suiteEvent) []*flattenRec {
	out := []*flattenRec{}
	for pi, evs := range procs {
		var cur *flattenRec
		var pj *Projector
		var names *NameTable
		flush := func() {
			if cur != nil && len(cur.Phases) > 0 {
				last := cur.Phases[len(cur.Phases)-1]
				cur.OK = last.Ev == "phase.removeUnused"
				cur.Doc = last.Doc
				cur.XKeys = pj.XKeys(cur.Doc)
				out = append(out, cur)
			}
			cur = nil
		}
		for _, e := range evs {
			if e.Ev == "flatten.start" {
				flush()
				names = NewNameTable()
				base := ""
				if len(e.Args) > 0 {
					base = e.Args[0]
				}
				pj = &Projector{Names: names, Files: &FileTable{Paths: map[string]string{"root": base}}}
				o := flattenOpts{}
				if len(e.Args) > 1 {
					o.Minimal = strings.Contains(e.Args[1], "minimal=true")
					o.Expand = strings.Contains(e.Args[1], "expand=true")
					o.RemoveUnused = strings.Contains(e.Args[1], "removeUnused=true")
					o.KeepNames = strings.Contains(e.Args[1], "keepNames=true")
				}
				root, err := pj.ProjectBytes(e.Doc, "root")
				if err != nil {
					root = NewNode()
				}
				cur = &flattenRec{Tid: fmt.Sprintf("x%df%d", pi, len(out)), Mode: o.Mode(), RU: o.RemoveUnused, Keep: o.KeepNames, InW: true, Anon: true,
					Bundle: map[string]*Node{"root": root}, Doc: NewNode(), Doc2: NewNode(), XKeys: []string{}, Fold: map[string]string{}, Crash: "none",
					Getters: emptyFull(), Fresh: emptyFull(), Phases: []phaseSnap{}, Events: []stepEvent{}}
				continue
			}
			if cur == nil {
				continue
			}
			if strings.HasPrefix(e.Ev, "phase.") || strings.HasPrefix(e.Ev, "round.") {
				if n, err := pj.ProjectBytes(e.Doc, "root"); err == nil {
					cur.Phases = append(cur.Phases, phaseSnap{Ev: e.Ev, Doc: n})
				}
				continue
			}
			if e.Ev == "mixin.start" {
				flush()
			}
		}
		flush()
	}
	return out
}

// suiteComponent validates the suite's recorded calls; used by the thorough tier of C17/C18 (mixin) and C02 (flatten lemmas).
func suiteMixinComponent(rep *Report, scratch string, prop string) {
	procs, tailOut, err := runSuiteTraced()
	if err != nil {
		rep.HarnessErr = append(rep.HarnessErr, "suite traces: "+err.Error())
		return
	}
	recs := suiteMixinRecords(procs)
	raw := []json.RawMessage{}
	for _, r := range recs {
		b, _ := json.Marshal(r)
		raw = append(raw, b)
	}
	info := map[string]any{"test_processes": len(procs), "mixin_calls_recorded": len(recs), "go_test_tail": tailOut}
	if len(raw) > 0 {
		dir := filepath.Join(scratch, "suite")
		os.MkdirAll(dir, 0o755)
		tl, err := RunTraceValidation(dir, "Trace_Mixin", raw, 10*time.Minute)
		if err != nil || tl == nil || !tl.OK {
			rep.HarnessErr = append(rep.HarnessErr, fmt.Sprintf("suite Trace_Mixin: %v", err))
		} else {
			okc := 0
			for _, r := range recs {
				if v, has := tl.Verdicts[r.Tid]; has {
					rep.Evaluations++
					if v[prop] {
						okc++
						rep.TracesOK++
					} else {
						what := "mixin call of the repository's test-suite"
						for _, d := range tl.Diags {
							if tid, p, _, _ := diagShape(d); tid == r.Tid && p == prop {
								what = d
								if len(what) > 400 {
									what = what[:400]
								}
							}
						}
						rep.AddViolation(Violation{Prop: prop, Tid: r.Tid, Sig: prop + ":suite-trace", What: what, Replay: "(go test -tags verif with VERIF_TRACE_DIR)"})
					}
				}
			}
			info["mixin_calls_accepted"] = okc
			rep.States += tl.Distinct
			rep.Transitions += tl.Generated
		}
	}
	rep.Extra["test_suite_traces"] = info
}
