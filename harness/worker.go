package main

// Persistent worker sub-processes with per-case timeout, crash attribution and restart (DESIGN.md section 2).
// The parent never calls the package under test itself: a fatal stack overflow or a hang of the real code must
// not take the driver down.

import (
	"bufio"
	"bytes"
	"encoding/json"
	"fmt"
	"io"
	"os"
	"os/exec"
	"runtime"
	"runtime/debug"
	"strings"
	"sync"
	"time"
)

// Req is one unit of work for a worker.
type Req struct {
	ID    string            `json:"id"`
	Op    string            `json:"op"`
	Dir   string            `json:"dir,omitempty"`
	Files map[string]string `json:"files,omitempty"` // docId -> absolute path
	Names map[string]string `json:"names,omitempty"` // placeholder -> concrete
	Args  json.RawMessage   `json:"args,omitempty"`
}

// Resp is the worker's answer. Crash is filled by the parent: "", "panic", "fatal", "timeout".
type Resp struct {
	ID     string            `json:"id"`
	Err    string            `json:"err,omitempty"`   // harness-level error (exit 2 material)
	Crash  string            `json:"crash,omitempty"` // crash of the code under test
	Detail string            `json:"detail,omitempty"`
	Rec    json.RawMessage   `json:"rec,omitempty"`
	Names  map[string]string `json:"names,omitempty"`
}

type opFunc func(req *Req) (rec any, names map[string]string, err error)

var workerOps = map[string]opFunc{}

func workerMain() {
	debug.SetMaxStack(256 << 20)
	// watchdog: a run-away loop of the code under test that allocates without bound must not take the machine down
	go func() {
		var ms runtime.MemStats
		for {
			time.Sleep(200 * time.Millisecond)
			runtime.ReadMemStats(&ms)
			if ms.HeapAlloc > 3<<30 {
				fmt.Fprintln(os.Stderr, "VERIF-WATCHDOG: heap above 3 GiB, giving up (unbounded allocation)")
				os.Exit(97)
			}
		}
	}()
	in := bufio.NewReaderSize(os.Stdin, 1<<20)
	out := bufio.NewWriter(os.Stdout)
	for {
		line, err := in.ReadBytes('\n')
		if len(line) > 0 {
			var req Req
			resp := Resp{}
			if e := json.Unmarshal(line, &req); e != nil {
				resp.Err = "bad request: " + e.Error()
			} else {
				resp.ID = req.ID
				func() {
					defer func() {
						if r := recover(); r != nil {
							resp.Crash = "panic"
							resp.Detail = fmt.Sprintf("%v\n%s", r, trimStack(debug.Stack()))
						}
					}()
					f := workerOps[req.Op]
					if f == nil {
						resp.Err = "unknown op " + req.Op
						return
					}
					rec, names, e := f(&req)
					if e != nil {
						resp.Err = e.Error()
						return
					}
					b, e := json.Marshal(rec)
					if e != nil {
						resp.Err = "marshal: " + e.Error()
						return
					}
					resp.Rec = b
					resp.Names = names
				}()
			}
			b, _ := json.Marshal(resp)
			out.Write(b)
			out.WriteByte('\n')
			out.Flush()
		}
		if err != nil {
			return
		}
	}
}

func trimStack(b []byte) string {
	s := string(b)
	if len(s) > 3000 {
		s = s[:3000] + "..."
	}
	return s
}

// ---------------------------------------------------------------------------------------------------

type proc struct {
	cmd    *exec.Cmd
	stdin  io.WriteCloser
	stdout *bufio.Reader
	stderr *bytes.Buffer
}

func startProc(exe string, env []string) (*proc, error) {
	cmd := exec.Command(exe, "worker")
	cmd.Env = append(os.Environ(), env...)
	stdin, err := cmd.StdinPipe()
	if err != nil {
		return nil, err
	}
	so, err := cmd.StdoutPipe()
	if err != nil {
		return nil, err
	}
	eb := &bytes.Buffer{}
	cmd.Stderr = &tailWriter{buf: eb, max: 1 << 16}
	if err := cmd.Start(); err != nil {
		return nil, err
	}
	return &proc{cmd: cmd, stdin: stdin, stdout: bufio.NewReaderSize(so, 1<<20), stderr: eb}, nil
}

type tailWriter struct {
	mu  sync.Mutex
	buf *bytes.Buffer
	max int
}

func (t *tailWriter) Write(p []byte) (int, error) {
	t.mu.Lock()
	defer t.mu.Unlock()
	if t.buf.Len() < t.max {
		t.buf.Write(p)
	}
	return len(p), nil
}

func (p *proc) kill() {
	if p == nil {
		return
	}
	p.stdin.Close()
	p.cmd.Process.Kill()
	p.cmd.Wait()
}

// Pool runs requests on n worker processes.
type Pool struct {
	Exe     string
	N       int
	Timeout time.Duration
	Env     []string
}

// Run executes all requests; the result slice is index-aligned with reqs.
func (pl *Pool) Run(reqs []*Req) []*Resp {
	res := make([]*Resp, len(reqs))
	jobs := make(chan int)
	var wg sync.WaitGroup
	n := pl.N
	if n > len(reqs) {
		n = len(reqs)
	}
	if n < 1 {
		n = 1
	}
	for w := 0; w < n; w++ {
		wg.Add(1)
		go func() {
			defer wg.Done()
			var p *proc
			defer func() { p.kill() }()
			for i := range jobs {
				var r *Resp
				r, p = pl.one(p, reqs[i])
				res[i] = r
			}
		}()
	}
	for i := range reqs {
		jobs <- i
	}
	close(jobs)
	wg.Wait()
	return res
}

// Confirm re-runs, each in a fresh process and in parallel, the requests whose first run crashed; a crash that does not
// reproduce is replaced by the second answer.
func (pl *Pool) Confirm(reqs []*Req, res []*Resp, timeout time.Duration) {
	idx := []int{}
	for i, r := range res {
		if r != nil && r.Crash != "" {
			idx = append(idx, i)
		}
	}
	if len(idx) == 0 {
		return
	}
	var wg sync.WaitGroup
	sem := make(chan struct{}, pl.N)
	for _, i := range idx {
		wg.Add(1)
		sem <- struct{}{}
		go func(i int) {
			defer wg.Done()
			defer func() { <-sem }()
			r2 := pl.RunOne(reqs[i], timeout)
			if r2.Crash == "" {
				res[i] = r2
			} else {
				res[i].Detail = res[i].Detail + "\n(confirmed in a fresh process: " + r2.Crash + ")"
			}
		}(i)
	}
	wg.Wait()
}

// RunOne runs a single request in a fresh process (used to confirm crashes / timeouts).
func (pl *Pool) RunOne(req *Req, timeout time.Duration) *Resp {
	old := pl.Timeout
	cp := *pl
	cp.Timeout = timeout
	r, p := cp.one(nil, req)
	p.kill()
	_ = old
	return r
}

func (pl *Pool) one(p *proc, req *Req) (*Resp, *proc) {
	var err error
	if p == nil {
		p, err = startProc(pl.Exe, pl.Env)
		if err != nil {
			return &Resp{ID: req.ID, Err: "cannot start worker: " + err.Error()}, nil
		}
	}
	b, _ := json.Marshal(req)
	b = append(b, '\n')
	type rd struct {
		line []byte
		err  error
	}
	ch := make(chan rd, 1)
	go func() {
		if _, e := p.stdin.Write(b); e != nil {
			ch <- rd{nil, e}
			return
		}
		line, e := p.stdout.ReadBytes('\n')
		ch <- rd{line, e}
	}()
	select {
	case r := <-ch:
		if r.err != nil || len(r.line) == 0 {
			// process died: fatal error of the code under test (stack overflow, runtime throw, os.Exit)
			p.cmd.Wait()
			detail := p.stderr.String()
			if len(detail) > 2000 {
				detail = detail[:2000] + "..."
			}
			p.kill()
			if strings.Contains(detail, "VERIF-WATCHDOG") {
				return &Resp{ID: req.ID, Crash: "timeout", Detail: "unbounded memory growth (watchdog): " + firstLines(detail, 3)}, nil
			}
			return &Resp{ID: req.ID, Crash: "fatal", Detail: firstLines(detail, 12)}, nil
		}
		var resp Resp
		if e := json.Unmarshal(r.line, &resp); e != nil {
			return &Resp{ID: req.ID, Err: "bad worker answer: " + e.Error()}, p
		}
		return &resp, p
	case <-time.After(pl.Timeout):
		p.kill()
		return &Resp{ID: req.ID, Crash: "timeout", Detail: fmt.Sprintf("no answer within %s", pl.Timeout)}, nil
	}
}

func firstLines(s string, n int) string {
	ls := strings.Split(s, "\n")
	if len(ls) > n {
		ls = ls[:n]
	}
	return strings.Join(ls, "\n")
}
