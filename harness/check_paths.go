package main

// Function-level conformance of $ref rebasing (Paths.tla): every (base, ref) pair enumerated by MC_Paths is run through the real
// normalize.RebaseRef / normalize.Path (exposed by the verif hook) and TLC decides that each answer designates the specified location.

import (
	"encoding/json"
	"fmt"
	"strings"
	"time"

	"github.com/go-openapi/analysis"
)

func init() { workerOps["paths"] = opPaths }

type pathLoc struct {
	Kind string   `json:"kind"`
	Segs []string `json:"segs"`
	Frag string   `json:"frag"`
}

type pathCase struct {
	Base    pathLoc `json:"base"`
	Ref     pathLoc `json:"ref"`
	BaseStr string  `json:"baseStr"`
	RefStr  string  `json:"refStr"`
}

type pathRec struct {
	Tid        string  `json:"tid"`
	Base       pathLoc `json:"base"`
	Ref        pathLoc `json:"ref"`
	BaseStr    string  `json:"baseStr"`
	RefStr     string  `json:"refStr"`
	RebasedStr string  `json:"rebasedStr"`
	Rebased    pathLoc `json:"rebased"`
	KeyedStr   string  `json:"keyedStr"`
	Keyed      pathLoc `json:"keyed"`
}

// parseLoc splits a rendered $ref into what it designates: fragment only, relative or absolute path (segments as spelled) + fragment.
func parseLoc(s string) pathLoc {
	p, frag := s, ""
	if i := strings.Index(s, "#"); i >= 0 {
		p, frag = s[:i], s[i+1:]
	}
	l := pathLoc{Segs: []string{}, Frag: frag}
	switch {
	case p == "":
		l.Kind = "frag"
		if !strings.Contains(s, "#") {
			l.Kind = "empty"
		}
		return l
	case strings.HasPrefix(p, "/"):
		l.Kind = "abs"
	default:
		l.Kind = "rel"
	}
	for _, seg := range strings.Split(p, "/") {
		if seg != "" {
			l.Segs = append(l.Segs, seg)
		}
	}
	return l
}

func opPaths(req *Req) (any, map[string]string, error) {
	var cases []pathCase
	if err := json.Unmarshal(req.Args, &cases); err != nil {
		return nil, nil, err
	}
	out := make([]pathRec, 0, len(cases))
	for i, c := range cases {
		r := pathRec{Tid: fmt.Sprintf("%s.%d", req.ID, i), Base: c.Base, Ref: c.Ref, BaseStr: c.BaseStr, RefStr: c.RefStr}
		r.RebasedStr = analysis.VerifRebaseRef(c.BaseStr, c.RefStr)
		r.Rebased = parseLoc(r.RebasedStr)
		r.Keyed = pathLoc{Kind: "frag", Segs: []string{}}
		if c.Base.Kind == "file" {
			basePath := c.BaseStr
			if i := strings.Index(basePath, "#"); i >= 0 {
				basePath = basePath[:i]
			}
			r.KeyedStr = analysis.VerifNormalizePath(c.RefStr, basePath)
			r.Keyed = parseLoc(r.KeyedStr)
		}
		out = append(out, r)
	}
	return out, nil, nil
}

// runPathsComponent adds the verdicts of the rebasing functions to a flatten report (the mechanism "import with rebasing" of C01 / C04).
func runPathsComponent(rep *Report, tier string) {
	maxRel := "2"
	if tier == "thorough" {
		maxRel = "3"
	}
	mc, lines, err := runMC("MC_Paths", map[string]string{"MaxRel": maxRel, "Export": "TRUE"}, 10*time.Minute, 4)
	if err != nil || mc == nil || !mc.OK {
		t := ""
		if mc != nil {
			t = mc.InvViolated + "\n" + mc.Tail
		}
		rep.HarnessErr = append(rep.HarnessErr, fmt.Sprintf("MC_Paths: %v %s", err, t))
		return
	}
	cases := []pathCase{}
	for _, l := range lines {
		var c pathCase
		if e := json.Unmarshal([]byte(l), &c); e != nil {
			rep.HarnessErr = append(rep.HarnessErr, "MC_Paths export not parseable: "+l[:min(len(l), 160)])
			return
		}
		if c.Base.Segs == nil {
			c.Base.Segs = []string{}
		}
		if c.Ref.Segs == nil {
			c.Ref.Segs = []string{}
		}
		cases = append(cases, c)
	}
	args, _ := json.Marshal(cases)
	pool := &Pool{Exe: selfExe(), N: 1, Timeout: 60 * time.Second}
	resp := pool.RunOne(&Req{ID: "p", Op: "paths", Args: args}, 60*time.Second)
	if resp.Crash != "" {
		rep.AddViolation(Violation{Prop: rep.Prop, Tid: "paths", Sig: rep.Prop + ":rebase-function:crash." + resp.Crash, What: "RebaseRef / Path crashed on an enumerated (base, ref): " + firstLines(resp.Detail, 3)})
		return
	}
	if resp.Err != "" || resp.Rec == nil {
		rep.HarnessErr = append(rep.HarnessErr, "paths op: "+resp.Err)
		return
	}
	var recs []json.RawMessage
	if e := json.Unmarshal(resp.Rec, &recs); e != nil {
		rep.HarnessErr = append(rep.HarnessErr, "paths op answer: "+e.Error())
		return
	}
	dir, err := scratchDir("paths")
	if err != nil {
		rep.HarnessErr = append(rep.HarnessErr, err.Error())
		return
	}
	tl, err := RunTraceValidation(dir, "Trace_Paths", recs, 10*time.Minute)
	if err != nil || tl == nil || !tl.OK {
		rep.HarnessErr = append(rep.HarnessErr, fmt.Sprintf("Trace_Paths: %v", err))
		return
	}
	bad := 0
	for _, v := range tl.Verdicts {
		if ok, has := v["PATHS"]; has && !ok {
			bad++
		}
	}
	seen := map[string]bool{}
	for _, d := range tl.Diags {
		tid, p, clause, _ := diagShape(d)
		if p != "PATHS" || seen[clause] {
			continue
		}
		seen[clause] = true
		rep.AddViolation(Violation{Prop: rep.Prop, Tid: tid, Sig: rep.Prop + ":rebase-function:" + clause,
			What: "the $ref returned by normalize." + map[string]string{"rebase": "RebaseRef", "path": "Path"}[clause] + " designates another location than specified (Paths.tla): " + d[:min(len(d), 300)]})
	}
	rep.Extra["rebase_function_conformance"] = map[string]any{"module": "MC_Paths/Trace_Paths", "pairs_enumerated": len(cases), "pairs_conformant": len(cases) - bad,
		"laws_checked_on_the_model": []string{"LawLocate", "LawIdem", "LawDotDot"}, "max_relative_segments": maxRel, "model_states": mc.Distinct}
	rep.States += mc.Distinct + tl.Distinct
	rep.Transitions += mc.Generated + tl.Generated
	rep.Evaluations += len(cases)
	rep.TracesOK += len(cases) - bad
}
