package main

// TLC-enumerated scenario documents (direction B): run an MC_* specification that model-checks the design-level
// invariants over the scenario family and prints every enumerated document; concretize them for replay.

import (
	"bufio"
	"crypto/sha256"
	"encoding/hex"
	"encoding/json"
	"fmt"
	"github.com/go-openapi/swag"
	"math/rand"
	"os"
	"path/filepath"
	"regexp"
	"sort"
	"strconv"
	"strings"
	"time"
)

type scenarioDoc struct {
	Fam   string          `json:"fam"`
	Sec   json.RawMessage `json:"sec"`
	Plant string          `json:"plant"`
	Depth int             `json:"depth"`
	Doc   *Node           `json:"doc"`
}

// mcStats of the last exhaustive runs, by family (for evidence).
type mcRun struct {
	Module      string
	Generated   int
	Distinct    int
	Depth       int
	OK          bool
	Constants   map[string]string
	WallS       float64
	Exported    int
	InvViolated string
	Tail        string
	Cached      bool // the exploration of exactly these modules and constants was done by an earlier check run on this machine
}

// explorations answered from .build/mccache in this process (reported in the evidence)
var mcReused []string

type mcCacheEntry struct {
	Run   *mcRun
	Lines []string
}

// mcCacheKey: the run is a function of the specification files and the constants only (never of the code under test)
func mcCacheKey(module, cfg string, consts map[string]string) string {
	h := sha256.New()
	fmt.Fprintf(h, "%s|%s|", module, cfg)
	ks := make([]string, 0, len(consts))
	for k := range consts {
		ks = append(ks, k)
	}
	sort.Strings(ks)
	for _, k := range ks {
		fmt.Fprintf(h, "%s=%s|", k, consts[k])
	}
	ents, _ := os.ReadDir(filepath.Join(verifRoot, "spec"))
	for _, e := range ents {
		if b, err := os.ReadFile(filepath.Join(verifRoot, "spec", e.Name())); err == nil {
			fmt.Fprintf(h, "%s:%x|", e.Name(), sha256.Sum256(b))
		}
	}
	return hex.EncodeToString(h.Sum(nil))[:24]
}

var lastMC = map[string]*mcRun{}

var rePlaceholder = regexp.MustCompile(`^(N|P|C|G|X)_[0-9a-z]+$`)

// runMC runs an MC module in its own scratch directory and returns the result with the exported JSON lines.
func runMC(module string, consts map[string]string, timeout time.Duration, workers int) (*mcRun, []string, error) {
	return runMCcfg(module, "", consts, timeout, workers)
}

func runMCcfg(module, cfg string, consts map[string]string, timeout time.Duration, workers int) (*mcRun, []string, error) {
	cacheFile := filepath.Join(verifRoot, ".build", "mccache", module+"-"+mcCacheKey(module, cfg, consts)+".json")
	// (development aid, off by default: registered checks always explore, so that every count in the evidence is measured by the run)
	if os.Getenv("VERIF_MCCACHE") != "" {
		if b, err := os.ReadFile(cacheFile); err == nil {
			var ce mcCacheEntry
			if json.Unmarshal(b, &ce) == nil && ce.Run != nil && ce.Run.OK {
				ce.Run.Cached = true
				mcReused = append(mcReused, filepath.Base(cacheFile))
				return ce.Run, ce.Lines, nil
			}
		}
	}
	run, lines, err := runMCuncached(module, cfg, consts, timeout, workers)
	if err == nil && run != nil && run.OK && os.Getenv("VERIF_MCCACHE") != "" {
		if b, e := json.Marshal(mcCacheEntry{Run: run, Lines: lines}); e == nil {
			os.MkdirAll(filepath.Dir(cacheFile), 0o755)
			tmp := cacheFile + fmt.Sprintf(".%d", os.Getpid())
			if os.WriteFile(tmp, b, 0o644) == nil {
				os.Rename(tmp, cacheFile)
			}
		}
	}
	return run, lines, err
}

func runMCuncached(module, cfg string, consts map[string]string, timeout time.Duration, workers int) (*mcRun, []string, error) {
	dir, err := scratchDir("mc")
	if err != nil {
		return nil, nil, err
	}
	defer os.RemoveAll(dir)
	if err := copySpecs(dir); err != nil {
		return nil, nil, err
	}
	res, err := RunTLC(dir, TLCOpts{Module: module, Config: cfg, Workers: workers, Timeout: timeout, Defines: consts})
	run := &mcRun{Module: module, Constants: consts}
	if res != nil {
		run.Generated, run.Distinct, run.Depth, run.OK, run.WallS, run.InvViolated = res.Generated, res.Distinct, res.Depth, res.OK, res.WallS, res.InvViolated
	}
	if err != nil {
		if res != nil {
			run.Tail = tail(stripExports(res.Out), 20)
		}
		return run, nil, err
	}
	lines := []string{}
	sc := bufio.NewScanner(strings.NewReader(res.Out))
	sc.Buffer(make([]byte, 1<<20), 1<<26)
	for sc.Scan() {
		l := sc.Text()
		if strings.HasPrefix(l, `"{`) {
			if u, e := strconv.Unquote(l); e == nil {
				lines = append(lines, u)
			}
		}
	}
	run.Exported = len(lines)
	if !run.OK {
		run.Tail = tail(stripExports(res.Out), 25)
	}
	return run, lines, nil
}

func stripExports(out string) string {
	ls := []string{}
	for _, l := range strings.Split(out, "\n") {
		if !strings.HasPrefix(l, `"{`) && !strings.HasPrefix(l, `"<<`) {
			ls = append(ls, l)
		}
	}
	return strings.Join(ls, "\n")
}

// bindPlaceholders draws a concrete name of the property alphabet for every placeholder label of the tree.
func bindPlaceholders(g *Gen, docs map[string]*Node) {
	set := map[string]bool{}
	for _, d := range docs {
		d.Walk(nil, func(_ []string, n *Node) {
			for l := range n.Ch {
				if rePlaceholder.MatchString(l) {
					set[l] = true
				}
			}
			if r := n.Ref(); r != nil {
				for _, t := range r[1:] {
					if rePlaceholder.MatchString(t) {
						set[t] = true
					}
				}
			}
		})
	}
	keys := make([]string, 0, len(set))
	for k := range set {
		keys = append(keys, k)
	}
	sort.Strings(keys)
	// name relations that matter to string-prefix logic: sometimes the holder definition's name extends the target's name
	// (node / nodeList, pet / pets)
	if set["N_1"] && g.r.Intn(2) == 0 {
		if _, bound := g.Names.ToConcrete["N_1"]; !bound {
			g.Names.Bind("N_1", g.concreteName(g.pickClass()))
		}
		base := g.Names.ToConcrete["N_1"]
		for k, suffix := range map[string]string{"N_8": "List", "N_16": "s", "N_7": "Item"} {
			if _, bound := g.Names.ToConcrete[k]; set[k] && !bound && !g.usedConcrete[base+suffix] && !reservedWords[base+suffix] && g.r.Intn(2) == 0 {
				g.usedConcrete[base+suffix] = true
				g.Names.Bind(k, base+suffix)
			}
		}
	}
	// a property whose name extends the name of the sibling it points to (address / addressBackup)
	if set["N_26"] && set["N_3"] {
		_, b3 := g.Names.ToConcrete["N_3"]
		_, b26 := g.Names.ToConcrete["N_26"]
		if !b3 && !b26 {
			base := g.concreteName(g.pickClass())
			if !g.usedConcrete[base+"Backup"] && !reservedWords[base+"Backup"] {
				g.usedConcrete[base+"Backup"] = true
				g.Names.Bind("N_3", base)
				g.Names.Bind("N_26", base+"Backup")
			}
		}
	}
	// a definition whose name is a string prefix of the name of the definition that refers to it (node / nodeList)
	if set["N_1"] && set["N_2"] && g.r.Intn(2) == 0 {
		_, b1 := g.Names.ToConcrete["N_1"]
		_, b2 := g.Names.ToConcrete["N_2"]
		if !b1 && !b2 {
			base := plainWords[g.r.Intn(len(plainWords))]
			if !g.usedConcrete[base] && !g.usedConcrete[base+"List"] && !reservedWords[base] {
				g.usedConcrete[base], g.usedConcrete[base+"List"] = true, true
				g.Names.Bind("N_2", base)
				g.Names.Bind("N_1", base+"List")
			}
		}
	}
	// sibling property names where one is a string prefix of the other (addr / addrKind)
	if set["N_3"] && set["N_4"] && g.r.Intn(2) == 0 {
		if _, b3 := g.Names.ToConcrete["N_3"]; !b3 {
			if _, b4 := g.Names.ToConcrete["N_4"]; !b4 {
				base := g.concreteName(g.pickClass())
				if !g.usedConcrete[base+"Kind"] && !reservedWords[base+"Kind"] {
					g.usedConcrete[base+"Kind"] = true
					g.Names.Bind("N_4", base)
					g.Names.Bind("N_3", base+"Kind")
				}
			}
		}
	}
	// C_i is the case variant of N_i: bind after the N_ names
	late := func(k string) bool {
		return strings.HasPrefix(k, "C_") || strings.HasPrefix(k, "G_") || strings.HasPrefix(k, "X_")
	}
	sort.SliceStable(keys, func(i, j int) bool { return !late(keys[i]) && late(keys[j]) })
	for _, k := range keys {
		if _, bound := g.Names.ToConcrete[k]; bound {
			continue
		}
		if strings.HasPrefix(k, "C_") {
			base, ok := g.Names.ToConcrete["N_"+k[2:]]
			if !ok {
				base = g.concreteName(ncPlain)
				g.Names.Bind("N_"+k[2:], base)
			}
			v := swapCase(base)
			if v == base {
				v = base + "X" // no letter to swap: no collision in this instance
			}
			g.usedConcrete[v] = true
			g.Names.Bind(k, v)
			continue
		}
		if strings.HasPrefix(k, "X_") {
			// X_i: a path whose string extends the path P_i
			base, ok := g.Names.ToConcrete["P_"+k[2:]]
			if !ok {
				base = "/" + plainWords[g.r.Intn(len(plainWords))] + k[2:]
				g.Names.Bind("P_"+k[2:], base)
			}
			g.Names.Bind(k, base+[]string{"/{id}", "s", "/sub", "{id}"}[g.r.Intn(4)])
			continue
		}
		if k == "G_3" || k == "G_4" {
			// the generated name of the allOf member definitions/N_8/allOf/1, and its case variant
			base := swag.ToJSONName(g.Names.ToConcrete["N_8"] + " allOf 1")
			if k == "G_4" {
				base = swapCase(base)
			}
			if base == "" || g.usedConcrete[base] || reservedWords[base] {
				base = g.concreteName(ncPlain)
			}
			g.usedConcrete[base] = true
			g.Names.Bind(k, base)
			continue
		}
		if k == "G_1" || k == "G_2" {
			// G_1: the name full flattening generates for definitions/N_8/properties/N_9 (relation computed outside the repository);
			// G_2: its case variant.  When the relation cannot be planted (clash with another name) the instance has no collision.
			base := swag.ToJSONName(g.Names.ToConcrete["N_8"] + " " + g.Names.ToConcrete["N_9"])
			if k == "G_2" {
				base = swapCase(base)
			}
			if base == "" || g.usedConcrete[base] || reservedWords[base] {
				base = g.concreteName(ncPlain)
			}
			g.usedConcrete[base] = true
			g.Names.Bind(k, base)
			continue
		}
		if strings.HasPrefix(k, "P_") {
			s := ""
			for i, n := 0, 1+g.r.Intn(3); i < n; i++ {
				if g.r.Intn(3) == 0 {
					s += "/{" + plainWords[g.r.Intn(len(plainWords))] + "}"
				} else {
					s += "/" + plainWords[g.r.Intn(len(plainWords))]
				}
			}
			g.Names.Bind(k, s+k[2:])
		} else {
			g.Names.Bind(k, g.concreteName(g.pickClass()))
		}
	}
}

func scenarioCases(family, tier string, seed int64, scratch string) ([]*Case, []string) {
	switch family {
	case "analyzer":
		return analyzerScenarios(tier, seed, scratch)
	case "flatten":
		return flattenScenarios(tier, seed, scratch)
	}
	return nil, nil
}

type flattenScenario struct {
	T    string           `json:"t"`
	S    string           `json:"s"`
	H    string           `json:"h"`
	H2   string           `json:"h2"`
	C    string           `json:"c"`
	Docs map[string]*Node `json:"docs"`
}

func (f *flattenScenario) Key() string { return f.T + "," + f.S + "," + f.H + "," + f.H2 + "," + f.C }

var scenarioFiles = map[string]string{"root": "api/root.json", "aux1": "api/sub/a.json", "aux2": "api/sub/deep/b.json", "aux3": "common/root.json", // (same file name as the root document, elsewhere)
	// decoys (never referenced): what a wrongly rebased "../a.json" / "../../common/root.json" would find
	"aux4": "api/sub/deep/a.json", "aux5": "api/sub/common/root.json"}

// corpusKeys reads corpus/flatten.txt: scenario keys that every quick run must include (directed corpus, S4).
func corpusKeys(name string) map[string]bool {
	out := map[string]bool{}
	b, err := os.ReadFile(filepath.Join(verifRoot, "corpus", name))
	if err != nil {
		return out
	}
	for _, l := range strings.Split(string(b), "\n") {
		l = strings.TrimSpace(l)
		if l == "" || strings.HasPrefix(l, "#") {
			continue
		}
		out[strings.Fields(l)[0]] = true
	}
	return out
}

func flattenScenarios(tier string, seed int64, scratch string) ([]*Case, []string) {
	run, lines, err := runMC("MC_FlattenScen", map[string]string{"Export": "TRUE"}, 10*time.Minute, nWorkers())
	lastMC["flatten"] = run
	if err != nil {
		return nil, []string{"MC_FlattenScen: " + err.Error() + "\n" + run.Tail}
	}
	if !run.OK {
		return nil, []string{"MC_FlattenScen did not complete cleanly (invariant " + run.InvViolated + "):\n" + run.Tail}
	}
	all := []*flattenScenario{}
	for _, l := range lines {
		fs := &flattenScenario{}
		if e := json.Unmarshal([]byte(l), fs); e != nil || fs.Docs["root"] == nil {
			return nil, []string{"MC_FlattenScen export not parseable: " + l[:min(len(l), 200)]}
		}
		all = append(all, fs)
	}
	sort.Slice(all, func(i, j int) bool { return all[i].Key() < all[j].Key() })
	pickN := 400
	if tier == "thorough" {
		pickN = 4000 // of the 21 160: every check of the family repeats the campaign, the seed rotates the sample
	}
	if v := os.Getenv("VERIF_SCEN"); v != "" {
		if n, e := strconv.Atoi(v); e == nil {
			pickN = n
		}
	}
	corpus := corpusKeys("flatten.txt")
	r := rand.New(rand.NewSource(seed + 77))
	perm := r.Perm(len(all))
	chosen := []*flattenScenario{}
	taken := map[int]bool{}
	for i, fs := range all {
		if corpus[fs.Key()] {
			chosen = append(chosen, fs)
			taken[i] = true
		}
	}
	nc := len(chosen)
	for _, i := range perm {
		if len(chosen)-nc >= pickN {
			break
		}
		if !taken[i] {
			chosen = append(chosen, all[i])
		}
	}
	// names enumerated by MC_Keys (every character-class sequence up to the bound), planted in every role of a few scenarios
	type forced struct {
		fs   *flattenScenario
		name string
	}
	forcedNames := map[int]string{}
	if os.Getenv("VERIF_NOKEYS") == "" {
		maxLen, nNames := "3", 36
		if tier == "thorough" {
			nNames = 819
		}
		krun, klines, kerr := runMC("MC_Keys", map[string]string{"MaxLen": maxLen, "Export": "TRUE"}, 10*time.Minute, 8)
		lastMC["keys"] = krun
		if kerr != nil || krun == nil || !krun.OK {
			return nil, []string{"MC_Keys failed"}
		}
		byKey := map[string]*flattenScenario{}
		for _, fs := range all {
			byKey[fs.Key()] = fs
		}
		roleScen := []string{"aux1,object,prop,none,none", "local,object,nested,code,none", "anonprop,object,code,none,none", "selfrec,prim,opbody,prop2,none"}
		kr := rand.New(rand.NewSource(seed + 991))
		kr.Shuffle(len(klines), func(i, j int) { klines[i], klines[j] = klines[j], klines[i] })
		// (two names with URL sub-delimiters outside the MC_Keys alphabet, planted in every run: '+' must stay a plus, not become a space)
		klines = append([]string{`{"name":["a","+","b"]}`, `{"name":["x","&","y","=","z"]}`}, klines...)
		for i, l := range klines {
			if i >= nNames+2 {
				break
			}
			var ex struct {
				Name []string `json:"name"`
			}
			if json.Unmarshal([]byte(l), &ex) != nil || len(ex.Name) == 0 {
				continue
			}
			nm := strings.Join(ex.Name, "")
			if nm == "0" || nm == "1" || nm == "a" {
				// plain digits: fine, but keep them distinct from list indices in diagnostics; "a" is also an enum VALUE of the scenario
				// bodies (a name equal to a value would be abstracted together with it: the projection round trip refuses that)
				nm = "n" + nm
			}
			fs := byKey[roleScen[i%len(roleScen)]]
			if fs == nil {
				continue
			}
			cp := *fs
			// deep copy of the documents (bindPlaceholders does not mutate trees, but cases must not share them)
			cp.Docs = map[string]*Node{}
			for id, d := range fs.Docs {
				cp.Docs[id] = d.Clone()
			}
			forcedNames[len(chosen)] = nm
			chosen = append(chosen, &cp)
		}
	}
	cases := []*Case{}
	errs := []string{}
	for i, fs := range chosen {
		g := NewGen(seed*104729+int64(i), GenOpts{PlainNames: i%3 == 1})
		if nm, ok := forcedNames[i]; ok {
			// the enumerated name plays every role: target definition, holder property, inner property, holder definition
			for ph, pre := range map[string]string{"N_1": "", "N_9": "p", "N_3": "q", "N_8": "h", "N_6": "k"} {
				g.usedConcrete[pre+nm] = true
				g.Names.Bind(ph, pre+nm)
			}
		}
		b := &Bundle{Docs: fs.Docs, Files: map[string]string{}}
		for id := range fs.Docs {
			b.Files[id] = scenarioFiles[id]
		}
		b.Feat = Features{NAux: len(fs.Docs) - 1, Collision: fs.C != "none" || fs.T == "anonimport",
			Anon:      fs.T == "anonprop" || fs.T == "anonitems" || fs.T == "anonallof" || fs.T == "anonsibling" || fs.T == "anonimport" || fs.T == "anoncase" || fs.T == "anonbackup",
			SharedPtr: fs.T == "sharedparam" || fs.T == "sharedresp",
			// a pointer nested in a pointer target belongs to the wider class W+ (C09 only)
			// ... and so do holders under keywords that Swagger 2.0 does not have (patternProperties, anyOf, oneOf, not, nested definitions)
			WPlus: fs.S == "ptrarray" || fs.H == "patprop" || fs.H == "anyof" || fs.H == "oneof" || fs.H == "not" || fs.H == "nesteddefs"}
		// an imported name is mangled (swag.ToJSONName) before it is compared with the root's names: the scenarios that speak of a
		// collision get a mangle-stable spelling for the colliding name, or there would be no collision to speak of
		collider := ""
		switch {
		case fs.T == "anonimport":
			collider = "N_2"
		case fs.C != "none" && fs.C != "gennames" && fs.C != "gennames2":
			collider = "N_1"
		}
		if fs.T == "auxempty" {
			// names of the alphabet (braces, brackets) that mangle to nothing
			for ph, nm := range map[string]string{"N_1": "{}", "N_25": "[]"} {
				if _, bound := g.Names.ToConcrete[ph]; !bound && !g.usedConcrete[nm] {
					g.usedConcrete[nm] = true
					g.Names.Bind(ph, nm)
				}
			}
		}
		if _, bound := g.Names.ToConcrete[collider]; collider != "" && !bound {
			for try := 0; try < 50; try++ {
				nm := plainWords[g.r.Intn(len(plainWords))]
				if try%2 == 1 {
					nm += strings.Title(plainWords[g.r.Intn(len(plainWords))])
				}
				if swag.ToJSONName(nm) == nm && !g.usedConcrete[nm] && !reservedWords[nm] {
					g.usedConcrete[nm] = true
					g.Names.Bind(collider, nm)
					break
				}
			}
		}
		bindPlaceholders(g, b.Docs)
		for _, cc := range g.Names.ToConcrete {
			if !safeKeyRe.MatchString(cc) && !strings.HasPrefix(cc, "/") {
				b.Feat.NonPlain = true
			}
		}
		c := &Case{Tid: fmt.Sprintf("s%d", i), Source: "tlc", Seed: seed, Bundle: b, Names: g.Names.ToConcrete, RefStyle: 2, Note: fs.Key() + forcedNote(forcedNames, i)}
		if err := c.Materialize(filepath.Join(scratch, c.Tid)); err != nil {
			errs = append(errs, err.Error())
			continue
		}
		if err := c.RoundTrip(); err != nil {
			errs = append(errs, err.Error())
			continue
		}
		cases = append(cases, c)
	}
	return cases, errs
}

func analyzerScenarios(tier string, seed int64, scratch string) ([]*Case, []string) {
	consts := map[string]string{"MaxDepth": "2", "MaxItems": "2", "Export": "TRUE"}
	sample := 1500
	to := 5 * time.Minute
	if tier == "thorough" {
		consts["MaxDepth"] = "3"
		consts["MaxItems"] = "3"
		sample = 25000
		to = 30 * time.Minute
	}
	run, lines, err := runMC("MC_Analyzer", consts, to, nWorkers())
	lastMC["analyzer"] = run
	if err != nil {
		return nil, []string{"MC_Analyzer: " + err.Error() + "\n" + run.Tail}
	}
	if !run.OK {
		return nil, []string{"MC_Analyzer did not complete cleanly (invariant " + run.InvViolated + "):\n" + run.Tail}
	}
	r := rand.New(rand.NewSource(seed))
	// replay every shallow document, and a seeded sample of the deeper ones
	docs := []scenarioDoc{}
	deep := []scenarioDoc{}
	for _, l := range lines {
		var sd scenarioDoc
		if e := json.Unmarshal([]byte(l), &sd); e != nil || sd.Doc == nil {
			return nil, []string{"MC_Analyzer export not parseable: " + l[:min(len(l), 200)]}
		}
		if sd.Fam != "schema" || sd.Depth <= 1 {
			docs = append(docs, sd)
		} else {
			deep = append(deep, sd)
		}
	}
	r.Shuffle(len(deep), func(i, j int) { deep[i], deep[j] = deep[j], deep[i] })
	if len(deep) > sample {
		deep = deep[:sample]
	}
	docs = append(docs, deep...)
	cases := []*Case{}
	errs := []string{}
	for i, sd := range docs {
		g := NewGen(seed*7919+int64(i), GenOpts{})
		b := &Bundle{Docs: map[string]*Node{"root": sd.Doc}, Files: map[string]string{"root": "api/root.json"}}
		bindPlaceholders(g, b.Docs)
		c := &Case{Tid: fmt.Sprintf("s%d", i), Source: "tlc", Seed: seed, Bundle: b, Names: g.Names.ToConcrete, RefStyle: i % 2,
			Note: fmt.Sprintf("fam=%s sec=%s plant=%s depth=%d", sd.Fam, string(sd.Sec), sd.Plant, sd.Depth)}
		if err := c.Materialize(filepath.Join(scratch, c.Tid)); err != nil {
			errs = append(errs, err.Error())
			continue
		}
		if err := c.RoundTrip(); err != nil {
			errs = append(errs, err.Error())
			continue
		}
		cases = append(cases, c)
	}
	return cases, errs
}

func min(a, b int) int {
	if a < b {
		return a
	}
	return b
}

func forcedNote(m map[int]string, i int) string {
	if nm, ok := m[i]; ok {
		return fmt.Sprintf(" name=%q", nm)
	}
	return ""
}
