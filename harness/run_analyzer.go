package main

// Worker side of the analyzer checks (C11, C12, C13, and the C16 read-only clause): runs analysis.New on a document
// and records the answers of the public getters in abstract form.

import (
	"bytes"
	"encoding/json"
	"fmt"
	"os"
	"sort"
	"strings"

	"github.com/go-openapi/analysis"
	"github.com/go-openapi/spec"
)

func init() { workerOps["analyze"] = opAnalyze }

type kv struct {
	P []string `json:"p"`
	V any      `json:"v"`
}

type schemaEntry struct {
	P    []string `json:"p"`
	Name string   `json:"name"`
	Top  bool     `json:"top"`
	OK   bool     `json:"ok"`
}

type analyzerAns struct {
	Refs      map[string][][]string `json:"refs"`
	Uniq      [][]string            `json:"uniq"`
	UniqNoDup bool                  `json:"uniqNoDup"`
	Patterns  map[string][]kv       `json:"patterns"`
	Enums     map[string][]kv       `json:"enums"`
	Schemas   []schemaEntry         `json:"schemas"`
	AllOfs    [][]string            `json:"allofs"`
}

type analyzerRec struct {
	Tid       string       `json:"tid"`
	Doc       *Node        `json:"doc"`
	XKeys     []string     `json:"xkeys"`
	Ans       *analyzerAns `json:"ans"`
	Unchanged bool         `json:"unchanged"`
	// After: the same analyzer asked again after it was handed to Flatten (the document it now speaks about, its answers);
	// validated as a record of its own (tid + "~f"): the index must be complete and sound for the CURRENT document
	After *analyzerRec `json:"after,omitempty"`
}

type analyzeArgs struct {
	ThenFlatten bool `json:"thenFlatten"`
	Full        bool `json:"full"` // full flattening with RemoveUnused (else Minimal)
}

func loadSwagger(path string) (*spec.Swagger, error) {
	b, err := os.ReadFile(path)
	if err != nil {
		return nil, err
	}
	if strings.HasSuffix(path, ".yml") || strings.HasSuffix(path, ".yaml") {
		return loadSwaggerYAML(b)
	}
	sw := &spec.Swagger{}
	if err := json.Unmarshal(b, sw); err != nil {
		return nil, err
	}
	return sw, nil
}

// parseKey parses an index key ("#/definitions/a~1b/properties/x") into abstract tokens (pointer-unescaped only).
func parseKey(pj *Projector, key string) []string {
	key = strings.TrimPrefix(key, "#")
	out := []string{}
	if key == "" || key == "/" {
		return out
	}
	for _, tok := range strings.Split(strings.TrimPrefix(key, "/"), "/") {
		tok = strings.ReplaceAll(tok, "~1", "/")
		tok = strings.ReplaceAll(tok, "~0", "~")
		out = append(out, pj.Names.Abs(tok))
	}
	return out
}

func parseRefs(pj *Projector, refs []string) [][]string {
	out := make([][]string, 0, len(refs))
	for _, r := range refs {
		out = append(out, pj.ParseRef(r, "root"))
	}
	sort.Slice(out, func(i, j int) bool { return fmt.Sprint(out[i]) < fmt.Sprint(out[j]) })
	return out
}

func enumVals(pj *Projector, vals []interface{}) any {
	b, _ := json.Marshal(map[string]any{"enum": vals})
	m, _ := decodeJSON(b)
	n := pj.Project(m, "root")
	return n.At["enum"]
}

func patternMap(pj *Projector, m map[string]string) []kv {
	out := make([]kv, 0, len(m))
	for k, v := range m {
		out = append(out, kv{P: parseKey(pj, k), V: pj.scalar(v)})
	}
	sort.Slice(out, func(i, j int) bool { return fmt.Sprint(out[i].P) < fmt.Sprint(out[j].P) })
	return out
}

func enumMap(pj *Projector, m map[string][]interface{}) []kv {
	out := make([]kv, 0, len(m))
	for k, v := range m {
		out = append(out, kv{P: parseKey(pj, k), V: enumVals(pj, v)})
	}
	sort.Slice(out, func(i, j int) bool { return fmt.Sprint(out[i].P) < fmt.Sprint(out[j].P) })
	return out
}

func jsonEq(a, b any) bool {
	x, e1 := json.Marshal(a)
	y, e2 := json.Marshal(b)
	return e1 == nil && e2 == nil && bytes.Equal(x, y)
}

// collectAnswers queries every index getter of an analyzed spec.
func collectAnswers(pj *Projector, an *analysis.Spec, sw *spec.Swagger) *analyzerAns {
	a := &analyzerAns{Refs: map[string][][]string{}, Patterns: map[string][]kv{}, Enums: map[string][]kv{}}
	a.Refs["all"] = parseRefs(pj, an.AllReferences())
	a.Refs["schema"] = parseRefs(pj, an.AllDefinitionReferences())
	a.Refs["param"] = parseRefs(pj, an.AllParameterReferences())
	a.Refs["response"] = parseRefs(pj, an.AllResponseReferences())
	a.Refs["pathItem"] = parseRefs(pj, an.AllPathItemReferences())
	a.Refs["items"] = parseRefs(pj, an.AllItemsReferences())
	uniq := []string{}
	a.UniqNoDup = true
	seenU := map[string]bool{}
	for _, r := range an.AllRefs() {
		if seenU[r.String()] {
			a.UniqNoDup = false
		}
		seenU[r.String()] = true
		uniq = append(uniq, r.String())
	}
	a.Uniq = parseRefs(pj, uniq)
	a.Patterns["parameter"] = patternMap(pj, an.ParameterPatterns())
	a.Patterns["header"] = patternMap(pj, an.HeaderPatterns())
	a.Patterns["items"] = patternMap(pj, an.ItemsPatterns())
	a.Patterns["schema"] = patternMap(pj, an.SchemaPatterns())
	a.Patterns["all"] = patternMap(pj, an.AllPatterns())
	a.Enums["parameter"] = enumMap(pj, an.ParameterEnums())
	a.Enums["header"] = enumMap(pj, an.HeaderEnums())
	a.Enums["items"] = enumMap(pj, an.ItemsEnums())
	a.Enums["schema"] = enumMap(pj, an.SchemaEnums())
	a.Enums["all"] = enumMap(pj, an.AllEnums())
	a.Schemas = []schemaEntry{}
	for _, sr := range an.AllDefinitions() {
		ref := pj.ParseRef(sr.Ref.String(), "root")
		e := schemaEntry{P: ref[1:], Name: pj.Names.Abs(sr.Name), Top: sr.TopLevel}
		func() {
			defer func() { recover() }()
			v, _, err := sr.Ref.GetPointer().Get(sw)
			e.OK = err == nil && sr.Schema != nil && jsonEq(v, sr.Schema)
		}()
		a.Schemas = append(a.Schemas, e)
	}
	sort.Slice(a.Schemas, func(i, j int) bool { return fmt.Sprint(a.Schemas[i].P) < fmt.Sprint(a.Schemas[j].P) })
	a.AllOfs = [][]string{}
	for _, sr := range an.SchemasWithAllOf() {
		a.AllOfs = append(a.AllOfs, pj.ParseRef(sr.Ref.String(), "root")[1:])
	}
	sort.Slice(a.AllOfs, func(i, j int) bool { return fmt.Sprint(a.AllOfs[i]) < fmt.Sprint(a.AllOfs[j]) })
	return a
}

func projectSwagger(pj *Projector, sw *spec.Swagger) (*Node, []byte, error) {
	b, err := json.Marshal(sw)
	if err != nil {
		return nil, nil, err
	}
	n, err := pj.ProjectBytes(b, "root")
	return n, b, err
}

func opAnalyze(req *Req) (any, map[string]string, error) {
	names := NewNameTable()
	for p, c := range req.Names {
		names.Bind(p, c)
	}
	names.rebuild()
	pj := &Projector{Names: names, Files: &FileTable{Paths: req.Files}}
	sw, err := loadSwagger(req.Files["root"])
	if err != nil {
		return nil, nil, fmt.Errorf("load: %w", err)
	}
	doc, before, err := projectSwagger(pj, sw)
	if err != nil {
		return nil, nil, err
	}
	an := analysis.New(sw)
	ans := collectAnswers(pj, an, sw)
	after, _ := json.Marshal(sw)
	rec := &analyzerRec{Tid: req.ID, Doc: doc, XKeys: pj.XKeys(doc), Ans: ans, Unchanged: bytes.Equal(before, after)}
	var args analyzeArgs
	if len(req.Args) > 0 {
		json.Unmarshal(req.Args, &args)
	}
	if args.ThenFlatten {
		ferr := analysis.Flatten(analysis.FlattenOpts{Spec: an, BasePath: req.Files["root"], Minimal: !args.Full, RemoveUnused: args.Full})
		if ferr == nil {
			if doc2, _, e2 := projectSwagger(pj, sw); e2 == nil {
				rec.After = &analyzerRec{Tid: req.ID + "~f", Doc: doc2, XKeys: pj.XKeys(doc2), Ans: collectAnswers(pj, an, sw), Unchanged: true}
			}
		}
	}
	return rec, names.ToConcrete, nil
}
