package main

import (
	"encoding/json"
	"fmt"
	"os"
	"path/filepath"
)

// replay re-executes a saved case: harness replay <dir>
func replay(dir string) int {
	b, err := os.ReadFile(filepath.Join(dir, "case.json"))
	if err != nil {
		fmt.Println("cannot read case:", err)
		return 2
	}
	var meta struct {
		Prop  string            `json:"prop"`
		Op    string            `json:"op"`
		Args  json.RawMessage   `json:"args"`
		Tid   string            `json:"tid"`
		Names map[string]string `json:"names"`
		Files map[string]string `json:"files"`
	}
	if err := json.Unmarshal(b, &meta); err != nil {
		fmt.Println("bad case:", err)
		return 2
	}
	f := replayers[meta.Op]
	if f == nil {
		fmt.Println("no replayer for op", meta.Op)
		return 2
	}
	files := map[string]string{}
	for id, rel := range meta.Files {
		files[id] = filepath.Join(dir, "files", rel)
	}
	c := &Case{Tid: meta.Tid, Source: "replay", Names: meta.Names, Files: files, Dir: filepath.Join(dir, "files")}
	return f(meta.Prop, c, meta.Args)
}

var replayers = map[string]func(prop string, c *Case, args json.RawMessage) int{}
