package main

import (
	"encoding/json"
	"fmt"
	"os"
	"path/filepath"
	"time"
)

// replay re-executes a saved case: harness replay <dir>
func replay(dir string) int {
	b, err := os.ReadFile(filepath.Join(dir, "case.json"))
	if err != nil {
		fmt.Println("cannot read case:", err)
		return 2
	}
	var meta struct {
		Prop  string            `json:"prop"`
		Op    string            `json:"op"`
		Args  json.RawMessage   `json:"args"`
		Tid   string            `json:"tid"`
		Names map[string]string `json:"names"`
		Files map[string]string `json:"files"`
	}
	if err := json.Unmarshal(b, &meta); err != nil {
		fmt.Println("bad case:", err)
		return 2
	}
	f := replayers[meta.Op]
	if f == nil {
		f = func(prop string, c *Case, args json.RawMessage) int { return replayGeneric(prop, meta.Op, c, args) }
	}
	files := map[string]string{}
	for id, rel := range meta.Files {
		files[id] = filepath.Join(dir, "files", rel)
	}
	c := &Case{Tid: meta.Tid, Source: "replay", Names: meta.Names, Files: files, Dir: filepath.Join(dir, "files")}
	return f(meta.Prop, c, meta.Args)
}

var replayers = map[string]func(prop string, c *Case, args json.RawMessage) int{}

var traceModuleOf = map[string]string{"flatten": "Trace_Flatten", "analyze": "Trace_Analyzer", "queries": "Trace_Queries", "classify": "Trace_Classify",
	"fixer": "Trace_Fixer", "mixin": "Trace_Mixin", "readers": "Trace_Readers"}

// splitAfter turns a record that carries an "after" record (the same object asked again after Flatten) into two records.
func splitAfter(raw json.RawMessage) []json.RawMessage {
	var m map[string]json.RawMessage
	if json.Unmarshal(raw, &m) != nil {
		return []json.RawMessage{raw}
	}
	aft, has := m["after"]
	if !has || string(aft) == "null" {
		return []json.RawMessage{raw}
	}
	delete(m, "after")
	b, err := json.Marshal(m)
	if err != nil {
		return []json.RawMessage{raw}
	}
	return []json.RawMessage{b, aft}
}

// replayGeneric re-executes the saved operation on the saved files in a worker and lets TLC judge the new record with the trace
// specification of the operation: exit 1 when the property is violated again, 0 when it holds on the current tree.
func replayGeneric(prop, op string, c *Case, args json.RawMessage) int {
	pool := &Pool{Exe: selfExe(), N: 1, Timeout: 60 * time.Second}
	r := pool.RunOne(&Req{ID: c.Tid, Op: op, Dir: c.Dir, Files: c.Files, Names: c.Names, Args: args}, 60*time.Second)
	if r.Crash != "" {
		fmt.Printf("REPRODUCED property=%s: the operation crashed (%s)\n%s\n", prop, r.Crash, firstLines(r.Detail, 12))
		return 1
	}
	if r.Err != "" || r.Rec == nil {
		fmt.Println("the operation could not be executed:", r.Err)
		return 2
	}
	mod := traceModuleOf[op]
	if mod == "" {
		fmt.Println("executed; no trace specification is attached to operation", op)
		return 0
	}
	scratch, err := scratchDir("replay")
	if err != nil {
		fmt.Println(err)
		return 2
	}
	defer os.RemoveAll(scratch)
	tl, err := RunTraceValidation(scratch, mod, splitAfter(r.Rec), 10*time.Minute)
	if err != nil || tl == nil || !tl.OK {
		fmt.Println("TLC did not complete:", err)
		return 2
	}
	bad, judged := false, false
	for tid, v := range tl.Verdicts {
		if ok, has := v[prop]; has {
			judged = true
			fmt.Printf("verdict %s %s = %v\n", tid, prop, ok)
			if !ok {
				bad = true
			}
		}
	}
	for _, d := range tl.Diags {
		if _, p, _, _ := diagShape(d); p == prop {
			fmt.Println(d[:min(len(d), 600)])
		}
	}
	switch {
	case bad:
		fmt.Printf("REPRODUCED property=%s on the current tree\n", prop)
		return 1
	case !judged:
		fmt.Printf("executed; a single run carries no verdict for %s (the property compares several runs or needs the campaign context)\n", prop)
	default:
		fmt.Printf("property %s holds for this case on the current tree\n", prop)
	}
	return 0
}
