package main

// bin/verif scen <scenario key> <dir> : materializes one scenario of the TLC-enumerated flatten family (files under <dir>/api/...).

import (
	"fmt"
	"os"
)

func init() {
	tools["scen"] = func(args []string) int {
		if len(args) < 2 {
			fmt.Println("usage: scen <target,shape,holder,second,collision> <dir>")
			return 2
		}
		os.Setenv("VERIF_NOKEYS", "1")
		os.Setenv("VERIF_SCEN", "100000")
		os.Setenv("VERIF_MCCACHE", "1")
		cases, errs := scenarioCases("flatten", "quick", envSeed(), args[1]+"/.all")
		defer os.RemoveAll(args[1] + "/.all")
		if len(errs) > 0 {
			fmt.Println(errs)
			return 2
		}
		for _, c := range cases {
			if c.Note == args[0] {
				if err := c.Materialize(args[1]); err != nil {
					fmt.Println(err)
					return 2
				}
				fmt.Println(c.Files["root"])
				return 0
			}
		}
		fmt.Println("no such scenario")
		return 1
	}
}
