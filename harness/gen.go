package main

// Seeded random generator of ABSTRACT documents and bundles (DESIGN.md section 5, S2).
// Inputs are always produced abstract first, so the intended target of every $ref is known by construction.

import (
	"fmt"
	"math/rand"
	"sort"
	"strconv"
	"strings"
)

// Bundle is an abstract bundle: docId -> tree, plus where each document lives (relative to the case directory).
type Bundle struct {
	Docs  map[string]*Node  `json:"docs"`
	Files map[string]string `json:"files"` // docId -> path relative to the case dir
	Feat  Features          `json:"feat"`
}

// Features of a generated bundle that decide membership in W for an option set.
type Features struct {
	NAux      int  `json:"naux"`
	Anon      bool `json:"anon"`      // holds an anonymous pointer into a root definition
	SharedPtr bool `json:"sharedPtr"` // holds a pointer into the schema of a shared parameter/response
	Collision bool `json:"collision"` // an auxiliary definition collides by name with a root definition
	WPlus     bool `json:"wplus"`     // contains constructs outside W
	NonPlain  bool `json:"nonPlain"`  // some name needs escaping
}

type GenOpts struct {
	MaxDepth      int  // schema nesting
	NDefs         int  // max root definitions
	NAux          int  // max auxiliary documents
	AllKeywords   bool // patternProperties, anyOf, oneOf, not, nested definitions
	AnonPointers  bool // $ref to a direct sub-schema of a root definition
	SharedPtrs    bool // $ref into the schema of a shared parameter / response
	Collisions    bool // imported definitions colliding by name with root definitions
	Shared        bool // shared parameters / responses and refs to them
	Decor         bool // patterns, enums, headers, items: what the analyzer indexes
	Dangling      bool // analyzer documents only: $refs need not resolve
	PlainNames    bool // only identifier-like names
	NameClasses   []int
	NonBodySchema bool
}

type Gen struct {
	r     *rand.Rand
	o     GenOpts
	Names *NameTable
	nName int
	nPath int
	// pools of definition names per document
	defs map[string][]string
	// imported-collision candidates: names of $ref-free aux definitions allowed to collide
	usedConcrete map[string]bool
}

func NewGen(seed int64, o GenOpts) *Gen {
	return &Gen{r: rand.New(rand.NewSource(seed)), o: o, Names: NewNameTable(), defs: map[string][]string{}, usedConcrete: map[string]bool{}}
}

// ---- names -------------------------------------------------------------------------------------

var plainWords = []string{"pet", "owner", "tag", "item", "order", "user", "Record", "dated", "thing", "name", "kind", "id2", "addr", "city", "zip", "Node", "leaf", "tree", "value", "meta"}

// strings that occur as keywords or fixed values in generated documents: never used as concrete names
var reservedWords = func() map[string]bool {
	m := map[string]bool{}
	for _, w := range []string{"name", "in", "type", "items", "value", "kind", "body", "query", "header", "path", "formData", "string", "integer",
		"number", "boolean", "array", "object", "default", "schema", "properties", "definitions", "parameters", "responses", "paths", "get", "put",
		"post", "delete", "options", "head", "patch", "description", "ok", "desc", "required", "enum", "pattern", "format", "title", "version", "info",
		"swagger", "allOf", "anyOf", "oneOf", "not", "additionalProperties", "additionalItems", "patternProperties", "headers", "discriminator",
		"operationId", "date", "uuid", "email", "int32", "int64", "a", "b", "t", "missing", "nowhere", "root", "consumes", "produces", "security",
		"securityDefinitions", "tags", "host", "basePath", "schemes", "externalDocs", "url", "contact", "license"} {
		m[w] = true
	}
	return m
}()

// name classes of the property alphabet
const (
	ncPlain = iota
	ncSpace
	ncUnicode
	ncSlash
	ncTilde
	ncHash
	ncQuestion
	ncBracket
	ncBrace
	ncMixed
	ncCount
)

var classNames = []string{"plain", "space", "unicode", "slash", "tilde", "hash", "question", "bracket", "brace", "mixed"}

func (g *Gen) concreteName(class int) string {
	w := func() string { return plainWords[g.r.Intn(len(plainWords))] }
	for try := 0; ; try++ {
		var s string
		switch class {
		case ncPlain:
			s = w()
			if g.r.Intn(3) == 0 {
				s += "_" + w()
			}
		case ncSpace:
			s = w() + " " + w()
		case ncUnicode:
			s = []string{"pét", "naïve", "日本", "größe", "Ünï"}[g.r.Intn(5)] + w()
		case ncSlash:
			s = w() + "/" + w()
		case ncTilde:
			s = w() + "~" + w()
		case ncHash:
			s = w() + "#" + w()
		case ncQuestion:
			s = w() + "?" + w()
		case ncBracket:
			s = w() + "[" + strconv.Itoa(g.r.Intn(3)) + "]"
		case ncBrace:
			s = w() + "{" + w() + "}"
		default:
			// (plus a few URL sub-delimiters the properties do not exclude: '+', '&', '=')
			s = w() + []string{"/", "~", " ", "#", "?", "[", "{", "é", "~1", "~0", "+", "&", "="}[g.r.Intn(13)] + w() + []string{"/", "~", " ", "]", "}", "", ""}[g.r.Intn(7)] + w()
		}
		if try > 5 {
			s += strconv.Itoa(g.r.Intn(1000))
		}
		if !g.usedConcrete[s] && !reservedWords[s] {
			g.usedConcrete[s] = true
			return s
		}
	}
}

func (g *Gen) pickClass() int {
	if g.o.PlainNames {
		return ncPlain
	}
	if len(g.o.NameClasses) > 0 {
		return g.o.NameClasses[g.r.Intn(len(g.o.NameClasses))]
	}
	if g.r.Intn(2) == 0 {
		return ncPlain
	}
	return g.r.Intn(ncCount)
}

// newName creates a fresh placeholder bound to a concrete name of a random class.
func (g *Gen) newName() string {
	g.nName++
	p := "N_" + strconv.Itoa(g.nName)
	g.Names.Bind(p, g.concreteName(g.pickClass()))
	return p
}

func (g *Gen) newNameConcrete(concrete string) string {
	g.nName++
	p := "N_" + strconv.Itoa(g.nName)
	g.usedConcrete[concrete] = true
	g.Names.Bind(p, concrete)
	return p
}

func (g *Gen) newPath() string {
	g.nPath++
	p := "P_" + strconv.Itoa(g.nPath)
	s := ""
	for i, n := 0, 1+g.r.Intn(3); i < n; i++ {
		if g.r.Intn(3) == 0 {
			s += "/{" + plainWords[g.r.Intn(len(plainWords))] + "}"
		} else {
			s += "/" + plainWords[g.r.Intn(len(plainWords))]
		}
	}
	s += strconv.Itoa(g.nPath)
	g.Names.Bind(p, s)
	return p
}

// ---- schema construction -------------------------------------------------------------------------

func leaf(t string) *Node {
	n := NewNode()
	n.At["type"] = t
	return n
}

func refNode(ref ...string) *Node {
	n := NewNode()
	n.At["$ref"] = append([]string{}, ref...)
	return n
}

func listNode(elems ...*Node) *Node {
	n := NewNode()
	n.At["__list"] = "1"
	for i, e := range elems {
		n.Ch[strconv.Itoa(i)] = e
	}
	return n
}

func mapNode(m map[string]*Node) *Node {
	n := NewNode()
	for k, v := range m {
		n.Ch[k] = v
	}
	return n
}

type refPicker func() *Node // returns a $ref schema node or nil

func (g *Gen) decorate(n *Node) {
	if !g.o.Decor {
		return
	}
	if g.r.Intn(4) == 0 {
		n.At["pattern"] = []string{"a-z", "x.y", "0-9 0-9"}[g.r.Intn(3)]
	}
	if g.r.Intn(5) == 0 {
		n.At["enum"] = []string{"a", "b"}
	}
}

func (g *Gen) primitive() *Node {
	t := []string{"string", "integer", "number", "boolean"}[g.r.Intn(4)]
	n := leaf(t)
	if t == "string" && g.r.Intn(3) == 0 {
		n.At["format"] = []string{"date", "date-time", "uuid", "email", "binary", "custom-fmt"}[g.r.Intn(6)]
	}
	if t == "integer" && g.r.Intn(3) == 0 {
		n.At["format"] = []string{"int32", "int64"}[g.r.Intn(2)]
	}
	g.decorate(n)
	return n
}

// schema generates a random schema; pick provides $ref nodes (may return nil).
func (g *Gen) schema(depth int, pick refPicker) *Node {
	if depth <= 0 {
		if g.r.Intn(3) == 0 {
			if r := pick(); r != nil {
				return r
			}
		}
		return g.primitive()
	}
	k := g.r.Intn(12)
	if !g.o.AllKeywords && k >= 9 {
		k = g.r.Intn(9)
	}
	switch k {
	case 0, 1:
		if r := pick(); r != nil {
			return r
		}
		return g.primitive()
	case 2:
		return g.primitive()
	case 3, 4: // object with properties
		n := leaf("object")
		props := NewNode()
		for i, np := 0, 1+g.r.Intn(3); i < np; i++ {
			props.Ch[g.newName()] = g.schema(depth-1, pick)
		}
		n.Ch["properties"] = props
		if g.r.Intn(4) == 0 {
			if g.r.Intn(2) == 0 {
				n.Ch["additionalProperties"] = g.schema(depth-1, pick)
			} else {
				n.At["additionalProperties"] = "=true"
			}
		}
		if g.r.Intn(6) == 0 {
			n.At["discriminator"] = "kind"
		}
		return n
	case 5: // map
		n := leaf("object")
		if g.r.Intn(4) == 0 {
			n.At["additionalProperties"] = "=true"
		} else {
			n.Ch["additionalProperties"] = g.schema(depth-1, pick)
		}
		return n
	case 6: // array
		n := leaf("array")
		if g.r.Intn(6) > 0 {
			n.Ch["items"] = g.schema(depth-1, pick)
		}
		if g.o.AllKeywords && g.r.Intn(4) == 0 {
			n.Ch["additionalItems"] = g.schema(depth-1, pick)
		}
		return n
	case 7: // tuple
		n := leaf("array")
		el := []*Node{}
		for i, ne := 0, 1+g.r.Intn(3); i < ne; i++ {
			el = append(el, g.schema(depth-1, pick))
		}
		n.Ch["items"] = listNode(el...)
		if g.r.Intn(3) == 0 {
			n.Ch["additionalItems"] = g.schema(depth-1, pick)
		}
		return n
	case 8: // allOf
		n := NewNode()
		el := []*Node{}
		for i, ne := 0, 1+g.r.Intn(3); i < ne; i++ {
			el = append(el, g.schema(depth-1, pick))
		}
		n.Ch["allOf"] = listNode(el...)
		if g.r.Intn(3) == 0 {
			n.At["type"] = "object"
		}
		if g.r.Intn(5) == 0 { // allOf + additionalProperties, no own properties
			if g.r.Intn(2) == 0 {
				n.At["additionalProperties"] = "=true"
			} else {
				n.Ch["additionalProperties"] = g.primitive()
			}
		}
		return n
	case 9: // anyOf / oneOf / not
		n := NewNode()
		kw := []string{"anyOf", "oneOf"}[g.r.Intn(2)]
		n.Ch[kw] = listNode(g.schema(depth-1, pick), g.schema(depth-1, pick))
		if g.r.Intn(2) == 0 {
			n.Ch["not"] = g.schema(depth-1, pick)
		}
		return n
	case 10: // patternProperties
		n := leaf("object")
		pp := NewNode()
		for i, np := 0, 1+g.r.Intn(3); i < np; i++ { // siblings of different shapes
			pp.Ch[g.newName()] = g.schema(depth-1, pick)
		}
		n.Ch["patternProperties"] = pp
		return n
	default: // nested definitions
		n := leaf("object")
		dd := NewNode()
		for i, nd := 0, 1+g.r.Intn(3); i < nd; i++ {
			dd.Ch[g.newName()] = g.schema(depth-1, pick)
		}
		n.Ch["definitions"] = dd
		props := NewNode()
		props.Ch[g.newName()] = g.schema(depth-1, pick)
		n.Ch["properties"] = props
		return n
	}
}

// ---- simple schemas (parameters, headers, items) ----------------------------------------------------

func (g *Gen) items(depth int) *Node {
	n := leaf([]string{"string", "integer", "array"}[g.r.Intn(3)])
	g.decorate(n)
	if n.At["type"] == "array" {
		if depth > 0 {
			n.Ch["items"] = g.items(depth - 1)
		} else {
			n.Ch["items"] = leaf("string")
		}
	}
	if g.o.Dangling && g.r.Intn(8) == 0 {
		n.At["$ref"] = []string{"root", "definitions", g.anyDef("root")}
	}
	return n
}

func (g *Gen) simpleParam(name string) *Node {
	n := NewNode()
	n.At["name"] = name
	n.At["in"] = []string{"query", "header", "path", "formData"}[g.r.Intn(4)]
	n.At["type"] = []string{"string", "integer", "array"}[g.r.Intn(3)]
	if n.At["in"] == "path" {
		n.At["required"] = "=true"
	}
	g.decorate(n)
	if n.At["type"] == "array" {
		n.Ch["items"] = g.items(1)
	}
	return n
}

func (g *Gen) bodyParam(name string, sch *Node) *Node {
	n := NewNode()
	n.At["name"] = name
	n.At["in"] = "body"
	n.Ch["schema"] = sch
	return n
}

func (g *Gen) header() *Node {
	n := leaf([]string{"string", "integer", "array"}[g.r.Intn(3)])
	g.decorate(n)
	if n.At["type"] == "array" {
		n.Ch["items"] = g.items(1)
	}
	return n
}

func (g *Gen) response(sch *Node) *Node {
	n := NewNode()
	n.At["description"] = []string{"ok", "a response", "desc"}[g.r.Intn(3)]
	if sch != nil {
		n.Ch["schema"] = sch
	}
	if g.o.Decor && g.r.Intn(2) == 0 {
		hs := NewNode()
		for i, nh := 0, 1+g.r.Intn(2); i < nh; i++ {
			hs.Ch["X-H"+strconv.Itoa(g.r.Intn(5))] = g.header()
		}
		n.Ch["headers"] = hs
	}
	return n
}

func (g *Gen) anyDef(doc string) string {
	ds := g.defs[doc]
	if len(ds) == 0 {
		return "N_0"
	}
	return ds[g.r.Intn(len(ds))]
}

var allMethods = []string{"get", "put", "post", "delete", "options", "head", "patch"}

// ---- whole documents -----------------------------------------------------------------------------------

func skeleton() *Node {
	d := NewNode()
	d.At["swagger"] = "2.0"
	info := NewNode()
	info.At["title"] = "t"
	info.At["version"] = "1"
	d.Ch["info"] = info
	return d
}

// GenBundle generates a bundle of the class described by the options.
func (g *Gen) GenBundle() *Bundle {
	b := &Bundle{Docs: map[string]*Node{}, Files: map[string]string{}}
	b.Files["root"] = "api/root.json"
	auxLoc := []string{"api/sub/a.json", "api/sub/deep/b.json", "common/root.json"} // the third one is a namesake of the root document
	naux := 0
	if g.o.NAux > 0 {
		naux = g.r.Intn(g.o.NAux + 1)
	}
	auxIDs := []string{}
	for i := 0; i < naux; i++ {
		id := "aux" + strconv.Itoa(i+1)
		auxIDs = append(auxIDs, id)
		b.Files[id] = auxLoc[i]
	}
	// choose definition names first so refs can be forward / recursive
	nd := 1 + g.r.Intn(g.o.NDefs)
	for i := 0; i < nd; i++ {
		g.defs["root"] = append(g.defs["root"], g.newName())
	}
	refFree := map[string]map[string]bool{} // doc -> def -> must be $ref-free (collision candidates)
	for _, id := range auxIDs {
		refFree[id] = map[string]bool{}
		na := 1 + g.r.Intn(3)
		for i := 0; i < na; i++ {
			if g.o.Collisions && g.r.Intn(3) == 0 {
				// collide with a root definition name (exactly or up to case): needs a second placeholder
				// for the same / similar concrete name: the aux definition lives in another document.
				rootName := g.anyDef("root")
				conc := g.Names.Conc(rootName)
				if g.r.Intn(2) == 0 {
					conc = swapCase(conc)
				}
				var p string
				if conc == g.Names.Conc(rootName) {
					p = rootName // same name, other document
				} else if ex, ok := g.Names.toAbstract[conc]; ok {
					p = ex
				} else {
					p = g.newNameConcrete(conc)
				}
				if !contains(g.defs[id], p) {
					g.defs[id] = append(g.defs[id], p)
					refFree[id][p] = true
					b.Feat.Collision = true
				}
				continue
			}
			g.defs[id] = append(g.defs[id], g.newName())
		}
	}
	// pickers
	rootPick := func() *Node {
		k := g.r.Intn(10)
		switch {
		case k < 5 || len(auxIDs) == 0:
			return refNode("root", "definitions", g.anyDef("root"))
		default:
			id := auxIDs[g.r.Intn(len(auxIDs))]
			return refNode(id, "definitions", g.anyDef(id))
		}
	}
	if g.o.Dangling {
		base := rootPick
		rootPick = func() *Node {
			if g.r.Intn(6) == 0 {
				return refNode("root", "definitions", "missing")
			}
			return base()
		}
	}
	auxPick := func(self string, idx int) refPicker {
		return func() *Node {
			// aux documents refer to themselves or to later aux documents (never back to the root)
			k := g.r.Intn(10)
			if k < 6 || idx == len(auxIDs)-1 {
				return refNode(self, "definitions", g.anyDef(self))
			}
			id := auxIDs[idx+1+g.r.Intn(len(auxIDs)-idx-1)]
			return refNode(id, "definitions", g.anyDef(id))
		}
	}
	noPick := func() *Node { return nil }

	// auxiliary documents
	for i, id := range auxIDs {
		d := skeleton()
		defs := NewNode()
		for _, dn := range g.defs[id] {
			if refFree[id][dn] {
				defs.Ch[dn] = g.schema(g.r.Intn(g.o.MaxDepth+1), noPick)
			} else {
				defs.Ch[dn] = g.schema(g.r.Intn(g.o.MaxDepth+1), auxPick(id, i))
			}
		}
		d.Ch["definitions"] = defs
		d.Ch["paths"] = NewNode()
		b.Docs[id] = d
	}

	// root
	root := skeleton()
	defs := NewNode()
	for _, dn := range g.defs["root"] {
		defs.Ch[dn] = g.schema(g.r.Intn(g.o.MaxDepth+1), rootPick)
	}
	root.Ch["definitions"] = defs

	// anonymous pointers to direct sub-schemas of root definitions
	anonTargets := [][]string{}
	if g.o.AnonPointers {
		for _, dn := range g.defs["root"] {
			d := defs.Ch[dn]
			if d.Ref() != nil {
				continue
			}
			for _, kw := range []string{"properties", "allOf", "items", "additionalProperties", "additionalItems"} {
				c := d.Ch[kw]
				if c == nil {
					continue
				}
				if kw == "properties" || c.At["__list"] != nil {
					for l := range c.Ch {
						anonTargets = append(anonTargets, []string{"root", "definitions", dn, kw, l})
					}
				} else {
					anonTargets = append(anonTargets, []string{"root", "definitions", dn, kw})
				}
			}
		}
		sort.Slice(anonTargets, func(i, j int) bool { return fmt.Sprint(anonTargets[i]) < fmt.Sprint(anonTargets[j]) })
	}

	// shared parameters / responses
	sharedParams, sharedResps := []string{}, []string{}
	sharedPtrTargets := [][]string{}
	if g.o.Shared {
		ps, rs := NewNode(), NewNode()
		for i, n := 0, g.r.Intn(3); i < n; i++ {
			nm := g.newName()
			sharedParams = append(sharedParams, nm)
			if g.r.Intn(2) == 0 {
				ps.Ch[nm] = g.bodyParam("body", g.schema(g.r.Intn(g.o.MaxDepth+1), rootPick))
				sharedPtrTargets = append(sharedPtrTargets, []string{"root", "parameters", nm, "schema"})
			} else {
				ps.Ch[nm] = g.simpleParam("sp" + strconv.Itoa(i))
			}
		}
		for i, n := 0, g.r.Intn(3); i < n; i++ {
			nm := g.newName()
			sharedResps = append(sharedResps, nm)
			var sch *Node
			if g.r.Intn(3) > 0 {
				sch = g.schema(g.r.Intn(g.o.MaxDepth+1), rootPick)
				sharedPtrTargets = append(sharedPtrTargets, []string{"root", "responses", nm, "schema"})
			}
			rs.Ch[nm] = g.response(sch)
		}
		if len(ps.Ch) > 0 {
			root.Ch["parameters"] = ps
		}
		if len(rs.Ch) > 0 {
			root.Ch["responses"] = rs
		}
	}

	// pick for operations: definitions, anonymous pointers, pointers into shared objects
	opPick := func() *Node {
		if g.o.AnonPointers && len(anonTargets) > 0 && g.r.Intn(4) == 0 {
			b.Feat.Anon = true
			return refNode(anonTargets[g.r.Intn(len(anonTargets))]...)
		}
		if g.o.SharedPtrs && len(sharedPtrTargets) > 0 && g.r.Intn(5) == 0 {
			b.Feat.SharedPtr = true
			return refNode(sharedPtrTargets[g.r.Intn(len(sharedPtrTargets))]...)
		}
		return rootPick()
	}

	// paths
	paths := NewNode()
	for i, np := 0, 1+g.r.Intn(3); i < np; i++ {
		pi := NewNode()
		// path-level parameters
		if g.r.Intn(2) == 0 {
			pl := []*Node{}
			for j, n := 0, 1+g.r.Intn(2); j < n; j++ {
				pl = append(pl, g.param(j, "pl", sharedParams, opPick))
			}
			pi.Ch["parameters"] = listNode(pl...)
		}
		nm := 1 + g.r.Intn(3)
		perm := g.r.Perm(len(allMethods))
		for j := 0; j < nm; j++ {
			m := allMethods[perm[j]]
			op := NewNode()
			if g.r.Intn(4) > 0 {
				op.At["operationId"] = "op" + strconv.Itoa(i) + m
			}
			if g.r.Intn(2) == 0 {
				pl := []*Node{}
				for k, n := 0, 1+g.r.Intn(2); k < n; k++ {
					pl = append(pl, g.param(k, "op", sharedParams, opPick))
				}
				op.Ch["parameters"] = listNode(pl...)
			}
			resps := NewNode()
			if g.r.Intn(2) == 0 {
				resps.Ch["default"] = g.respOrRef(sharedResps, opPick)
			}
			for k, n := 0, 1+g.r.Intn(2); k < n; k++ {
				code := []string{"200", "201", "404", "500"}[g.r.Intn(4)]
				_ = k
				resps.Ch[code] = g.respOrRef(sharedResps, opPick)
			}
			op.Ch["responses"] = resps
			pi.Ch[m] = op
		}
		if g.o.Dangling && g.r.Intn(5) == 0 {
			pi.At["$ref"] = []string{"root", "paths", "P_77"}
		}
		paths.Ch[g.newPath()] = pi
	}
	root.Ch["paths"] = paths
	// anonymous pointers held inside OTHER root definitions (replace a primitive leaf)
	if g.o.AnonPointers && len(anonTargets) > 0 {
		for _, dn := range g.defs["root"] {
			if g.r.Intn(4) != 0 {
				continue
			}
			t := anonTargets[g.r.Intn(len(anonTargets))]
			if t[2] == dn {
				continue
			}
			var leaves [][]string
			defs.Ch[dn].Walk([]string{}, func(p []string, n *Node) {
				if len(p) > 0 && len(n.Ch) == 0 && n.Ref() == nil && n.At["type"] != nil && p[len(p)-1] != "properties" {
					leaves = append(leaves, p)
				}
			})
			if len(leaves) == 0 {
				continue
			}
			lp := leaves[g.r.Intn(len(leaves))]
			defs.Ch[dn].Set(lp, refNode(t...))
			b.Feat.Anon = true
		}
	}
	b.Docs["root"] = root
	breakPureRefCycles(b)
	b.Feat.NAux = len(auxIDs)
	for _, c := range g.Names.ToConcrete {
		if !safeKeyRe.MatchString(c) && !strings.HasPrefix(c, "/") {
			b.Feat.NonPlain = true
		}
	}
	return b
}

func (g *Gen) param(j int, pfx string, sharedParams []string, pick refPicker) *Node {
	if len(sharedParams) > 0 && g.r.Intn(3) == 0 {
		return refNode("root", "parameters", sharedParams[g.r.Intn(len(sharedParams))])
	}
	if g.o.Dangling && g.r.Intn(10) == 0 {
		return refNode("root", "parameters", "nowhere")
	}
	if j == 0 && g.r.Intn(2) == 0 {
		return g.bodyParam(pfx+"body", g.schema(g.r.Intn(g.o.MaxDepth+1), pick))
	}
	p := g.simpleParam(pfx + "p" + strconv.Itoa(j))
	if g.o.NonBodySchema && g.r.Intn(4) == 0 {
		p.Ch["schema"] = g.schema(1, pick)
	}
	return p
}

func (g *Gen) respOrRef(sharedResps []string, pick refPicker) *Node {
	if len(sharedResps) > 0 && g.r.Intn(3) == 0 {
		return refNode("root", "responses", sharedResps[g.r.Intn(len(sharedResps))])
	}
	if g.o.Dangling && g.r.Intn(10) == 0 {
		return refNode("root", "responses", "nowhere")
	}
	var sch *Node
	if g.r.Intn(4) > 0 {
		sch = g.schema(g.r.Intn(g.o.MaxDepth+1), pick)
	}
	return g.response(sch)
}

func swapCase(s string) string {
	b := []rune(s)
	for i, c := range b {
		if c >= 'a' && c <= 'z' {
			b[i] = c - 32
			return string(b)
		}
		if c >= 'A' && c <= 'Z' {
			b[i] = c + 32
			return string(b)
		}
	}
	return s
}

func contains(xs []string, x string) bool {
	for _, y := range xs {
		if y == x {
			return true
		}
	}
	return false
}

// breakPureRefCycles: a chain of nodes that are nothing but $refs and never lands on a schema does not resolve
// (outside W); replace one link of every such chain by a primitive.
func breakPureRefCycles(b *Bundle) {
	nodeAt := func(ref []string) *Node {
		d := b.Docs[ref[0]]
		if d == nil {
			return nil
		}
		return d.Get(ref[1:])
	}
	for changed := true; changed; {
		changed = false
		for _, id := range sortedKeys(b.Docs) {
			b.Docs[id].Walk(nil, func(_ []string, n *Node) {
				r := n.Ref()
				if r == nil || changed {
					return
				}
				cur := n
				for steps := 0; steps < 70; steps++ {
					rr := cur.Ref()
					if rr == nil {
						return
					}
					nx := nodeAt(rr)
					if nx == nil {
						return
					}
					cur = nx
				}
				// never landed: break the chain here
				delete(n.At, "$ref")
				n.At["type"] = "string"
				changed = true
			})
		}
	}
}

func sortedKeys(m map[string]*Node) []string {
	out := make([]string, 0, len(m))
	for k := range m {
		out = append(out, k)
	}
	sort.Strings(out)
	return out
}

// ---- W+ : the wider class of C09 ---------------------------------------------------------------------

// WPlusInfo says what was done to a bundle to take it out of W.
type WPlusInfo struct {
	Kinds        []string `json:"kinds"`
	Unresolvable bool     `json:"unresolvable"` // a remote or anonymous $ref that Flatten must resolve does not resolve
	LocalMissing bool     `json:"localMissing"` // a local '#/definitions/<missing>' (interpretation: not claimed)
}

func schemaPositions(doc *Node) [][]string {
	var out [][]string
	doc.Walk(nil, func(p []string, n *Node) {
		if len(p) < 2 {
			return
		}
		last := p[len(p)-1]
		if last == "properties" || last == "definitions" || last == "parameters" || last == "responses" || last == "paths" || last == "headers" ||
			last == "allOf" || last == "anyOf" || last == "oneOf" || last == "patternProperties" || last == "info" {
			return
		}
		inSchema := false
		for i, l := range p {
			if l == "schema" || (l == "definitions" && i == 0 && len(p) > 1) {
				inSchema = true
			}
		}
		if !inSchema || n.At["__list"] != nil {
			return
		}
		out = append(out, append([]string{}, p...))
	})
	return out
}

func opLevelHolders(doc *Node) [][]string {
	var out [][]string
	doc.Walk(nil, func(p []string, n *Node) {
		if len(p) > 0 && p[0] == "paths" && n.Ref() != nil {
			isSchema := false
			for _, l := range p {
				if l == "schema" {
					isSchema = true
				}
			}
			if isSchema {
				out = append(out, append([]string{}, p...))
			}
		}
	})
	return out
}

// MutateWPlus applies 1..3 random mutations that take the bundle out of W (but keep it loadable).
func (g *Gen) MutateWPlus(b *Bundle) WPlusInfo {
	info := WPlusInfo{}
	root := b.Docs["root"]
	b.Feat.WPlus = true
	n := 1 + g.r.Intn(3)
	used := map[string]bool{}
	protected := map[string]bool{}
	for i := 0; i < n; i++ {
		holders := [][]string{}
		for _, h := range opLevelHolders(root) {
			if !used[fmt.Sprint(h)] {
				holders = append(holders, h)
			}
		}
		if len(holders) > 0 {
			// each mutation gets its own holder: a later one must not overwrite an earlier one
			pick := holders[g.r.Intn(len(holders))]
			used[fmt.Sprint(pick)] = true
			holders = [][]string{pick}
		}
		switch k := g.r.Intn(13); k {
		case 0, 1: // pointer to an arbitrary schema position (operations, nested inline schemas)
			pos := schemaPositions(root)
			if len(holders) == 0 || len(pos) == 0 {
				continue
			}
			h := holders[g.r.Intn(len(holders))]
			t := pos[g.r.Intn(len(pos))]
			root.Get(h).At["$ref"] = append([]string{"root"}, t...)
			info.Kinds = append(info.Kinds, "arbitrary-pointer")
		case 2: // pointer nested in a pointer target: plant an anonymous pointer inside a root definition's sub-schema
			pos := schemaPositions(root)
			defsOnly := [][]string{}
			for _, p := range pos {
				// (never inside a definition another mutation planted: that would undo what it claims)
				if p[0] == "definitions" && len(p) > 2 && !protected[p[1]] {
					defsOnly = append(defsOnly, p)
				}
			}
			if len(defsOnly) < 2 {
				continue
			}
			a, c := defsOnly[g.r.Intn(len(defsOnly))], defsOnly[g.r.Intn(len(defsOnly))]
			if fmt.Sprint(a) == fmt.Sprint(c) || strings.HasPrefix(fmt.Sprint(c), strings.TrimSuffix(fmt.Sprint(a), "]")) {
				continue
			}
			root.Set(a, refNode(append([]string{"root"}, c...)...))
			if len(holders) > 0 {
				root.Get(holders[g.r.Intn(len(holders))]).At["$ref"] = append([]string{"root"}, a[:len(a)-0]...)
			}
			info.Kinds = append(info.Kinds, "nested-pointer")
		case 3: // auxiliary document refers back to the root
			for _, id := range sortedKeys(b.Docs) {
				if id == "root" {
					continue
				}
				d := b.Docs[id].Ch["definitions"]
				if d == nil || len(d.Ch) == 0 {
					continue
				}
				names := sortedKeys(d.Ch)
				dn := names[g.r.Intn(len(names))]
				tgt := g.anyDef("root")
				if d.Ch[dn].Ch["properties"] != nil {
					d.Ch[dn].Ch["properties"].Ch[g.newName()] = refNode("root", "definitions", tgt)
				} else {
					d.Ch[dn] = refNode("root", "definitions", tgt)
				}
				info.Kinds = append(info.Kinds, "back-reference")
				break
			}
		case 4: // dangling remote definition / missing file
			if len(holders) == 0 {
				continue
			}
			h := holders[g.r.Intn(len(holders))]
			if len(b.Docs) > 1 && g.r.Intn(2) == 0 {
				ids := sortedKeys(b.Docs)
				id := ids[g.r.Intn(len(ids))]
				if id == "root" {
					id = ids[0]
				}
				if id != "root" {
					root.Get(h).At["$ref"] = []string{id, "definitions", "doesNotExist"}
					info.Unresolvable = true
					info.Kinds = append(info.Kinds, "dangling-remote-definition")
				}
			} else {
				b.Files["ghost"] = []string{"api/ghost.json", "api/v2/root.json"}[g.r.Intn(2)] // never written (the second one is a namesake of the root)
				root.Get(h).At["$ref"] = []string{"ghost", "definitions", "x"}
				info.Unresolvable = true
				info.Kinds = append(info.Kinds, "missing-file")
			}
		case 5: // dangling anonymous pointer
			if len(holders) == 0 {
				continue
			}
			h := holders[g.r.Intn(len(holders))]
			// ... to a property that does not exist, or to a keyword the target definition does not have (the holder of such a keyword
			// is a nil pointer of a concrete type in the schema model)
			tail := [][]string{{"properties", "doesNotExist"}, {"items"}, {"additionalProperties"}, {"additionalItems"}, {"not"}, {"items", "0"}}[g.r.Intn(6)]
			dn := g.anyDef("root")
			// (an alias definition is expanded in place by the expander, after which a pointer "through" it may well resolve: not claimed)
			if t := root.Ch["definitions"].Ch[dn]; t != nil && len(tail) >= 1 && (t.Ch[tail[0]] != nil || t.Ref() != nil) {
				tail = []string{"properties", "doesNotExist"}
			}
			root.Get(h).At["$ref"] = append([]string{"root", "definitions", dn}, tail...)
			info.Unresolvable = true
			info.Kinds = append(info.Kinds, "dangling-anonymous-pointer")
		case 6: // local reference to a missing definition (interpretation: not claimed)
			if len(holders) == 0 {
				continue
			}
			h := holders[g.r.Intn(len(holders))]
			root.Get(h).At["$ref"] = []string{"root", "definitions", "doesNotExist"}
			info.LocalMissing = true
			info.Kinds = append(info.Kinds, "local-missing-definition")
		case 10: // pointer to a schema kept in a root-level vendor extension (a one-segment JSON pointer)
			if len(holders) == 0 {
				continue
			}
			sch := leaf("object")
			ps := NewNode()
			ps.Ch["inner"] = leaf("string")
			sch.Ch["properties"] = ps
			if g.r.Intn(2) == 0 {
				sch = leaf("string")
			}
			root.Ch["x-shared-schema"] = sch
			root.Get(holders[0]).At["$ref"] = []string{"root", "x-shared-schema"}
			info.Kinds = append(info.Kinds, "pointer-to-extension")
		case 8: // a chain of anonymous pointers that ends in a cycle of pure $refs, entered through a tail (must be reported, not looped on)
			defs := root.Ch["definitions"]
			if defs == nil || len(holders) == 0 {
				continue
			}
			a, bb, c := g.newName(), g.newName(), g.newName()
			mk := func(prop string, ref []string) *Node {
				n := leaf("object")
				ps := NewNode()
				ps.Ch[prop] = refNode(ref...)
				ps.Ch["plain"] = leaf("string")
				n.Ch["properties"] = ps
				return n
			}
			loopLen := 1 + g.r.Intn(2)
			if loopLen == 1 {
				defs.Ch[a] = mk("t", []string{"root", "definitions", a, "properties", "t"})
			} else {
				n := mk("t", []string{"root", "definitions", a, "properties", "t2"})
				n.Ch["properties"].Ch["t2"] = refNode("root", "definitions", a, "properties", "t")
				defs.Ch[a] = n
			}
			defs.Ch[bb] = mk("u", []string{"root", "definitions", a, "properties", "t"})
			defs.Ch[c] = mk("p", []string{"root", "definitions", bb, "properties", "u"})
			g.defs["root"] = append(g.defs["root"], a, bb, c)
			protected[a], protected[bb], protected[c] = true, true, true
			root.Get(holders[0]).At["$ref"] = []string{"root", "definitions", c, "properties", "p"}
			info.Unresolvable = true
			info.Kinds = append(info.Kinds, "pointer-cycle-with-tail")
		case 9: // a remote $ref that differs only by letter case from one that resolves (it does not resolve itself)
			if len(holders) == 0 {
				continue
			}
			var remote []string
			root.Walk(nil, func(_ []string, n *Node) {
				if r := n.Ref(); r != nil && r[0] != "root" && len(r) == 3 && remote == nil {
					remote = r
				}
			})
			if remote == nil {
				continue
			}
			conc := g.Names.Conc(remote[2])
			variant := swapCase(conc)
			if variant == conc || g.usedConcrete[variant] {
				continue
			}
			ph := g.newNameConcrete(variant)
			root.Get(holders[0]).At["$ref"] = []string{remote[0], "definitions", ph}
			info.Unresolvable = true
			info.Kinds = append(info.Kinds, "dangling-case-variant-of-imported")
		case 12: // arbitrary name collision: the root owns a definition named like an imported one that is NOT $ref-free (possibly recursive)
			if len(holders) == 0 || root.Ch["definitions"] == nil {
				continue
			}
			for _, id := range sortedKeys(b.Docs) {
				if id == "root" {
					continue
				}
				d := b.Docs[id].Ch["definitions"]
				if d == nil || len(d.Ch) == 0 {
					continue
				}
				names := sortedKeys(d.Ch)
				dn := names[g.r.Intn(len(names))]
				if _, taken := root.Ch["definitions"].Ch[dn]; taken {
					continue
				}
				if g.r.Intn(2) == 0 {
					// make the imported definition recursive: through a property, or as a map of itself
					if g.r.Intn(2) == 0 && d.Ch[dn].Ch["properties"] != nil {
						d.Ch[dn].Ch["properties"].Ch["again"] = refNode(id, "definitions", dn)
					} else {
						m := leaf("object")
						m.Ch["additionalProperties"] = refNode(id, "definitions", dn)
						d.Ch[dn] = m
					}
				}
				root.Ch["definitions"].Ch[dn] = leaf("integer")
				g.defs["root"] = append(g.defs["root"], dn)
				root.Get(holders[0]).At["$ref"] = []string{id, "definitions", dn}
				info.Kinds = append(info.Kinds, "arbitrary-collision")
				break
			}
		case 11: // an imported definition refers back to a definition of the root that does not exist (back reference + dangling)
			if len(holders) == 0 {
				continue
			}
			for _, id := range sortedKeys(b.Docs) {
				if id == "root" {
					continue
				}
				d := b.Docs[id].Ch["definitions"]
				if d == nil || len(d.Ch) == 0 {
					continue
				}
				names := sortedKeys(d.Ch)
				dn := names[g.r.Intn(len(names))]
				body := leaf("object")
				ps := NewNode()
				ps.Ch["plain"] = leaf("string")
				ghost := "doesNotExist"
				if g.r.Intn(2) == 0 {
					ps.Ch["back"] = refNode("root", "definitions", ghost)
				} else {
					arr := leaf("array")
					arr.Ch["items"] = refNode("root", "definitions", ghost)
					ps.Ch["back"] = arr
				}
				body.Ch["properties"] = ps
				d.Ch[dn] = body
				// the definition is certainly reached: an operation of the root refers to it
				root.Get(holders[0]).At["$ref"] = []string{id, "definitions", dn}
				info.Unresolvable = true
				info.Kinds = append(info.Kinds, "dangling-back-reference")
				break
			}
		case 7: // schemas recursive only through items / additionalProperties
			nm := g.newName()
			g.defs["root"] = append(g.defs["root"], nm)
			var body *Node
			if g.r.Intn(2) == 0 {
				body = leaf("array")
				inner := leaf("array")
				inner.Ch["items"] = refNode("root", "definitions", nm)
				body.Ch["items"] = inner
			} else {
				body = leaf("object")
				inner := leaf("array")
				inner.Ch["items"] = refNode("root", "definitions", nm)
				body.Ch["additionalProperties"] = inner
			}
			root.Ch["definitions"].Ch[nm] = body
			if len(holders) > 0 {
				root.Get(holders[g.r.Intn(len(holders))]).At["$ref"] = []string{"root", "definitions", nm}
			}
			info.Kinds = append(info.Kinds, "container-recursion")
		}
	}
	return info
}
