package main

import (
	"encoding/json"
	"fmt"
	"os"
	"strings"
)

// harness flat <root.json> <mode[+ru][+keep]> : run Flatten in-process and print the result (debug aid, replays).
func init() {
	tools["flat"] = func(args []string) int {
		if len(args) < 2 {
			fmt.Println("usage: flat <root> <min|full|expand>[+ru][+keep]")
			return 2
		}
		o := flattenOpts{}
		for _, p := range strings.Split(args[1], "+") {
			switch p {
			case "min":
				o.Minimal = true
			case "expand":
				o.Expand = true
			case "ru":
				o.RemoveUnused = true
			case "keep":
				o.KeepNames = true
			}
		}
		sw, _, ferr, err := flattenOnce(args[0], o)
		if err != nil {
			fmt.Println("load error:", err)
			return 2
		}
		fmt.Fprintln(os.Stderr, "Flatten error:", ferr)
		b, _ := json.MarshalIndent(sw, "", " ")
		fmt.Println(string(b))
		return 0
	}
}
