package main

// C14 / C15: the query layer of the analyzer against Queries.tla.

import (
	"encoding/json"
	"fmt"
	"math/rand"
	"os"
	"path/filepath"
	"sort"
	"strings"
	"time"

	"github.com/go-openapi/analysis"
	"github.com/go-openapi/spec"
	"github.com/go-openapi/swag"
)

func init() {
	checks["C14"] = checkQueries
	checks["C15"] = checkQueries
	workerOps["queries"] = opQueries
}

type qOp struct {
	M  string `json:"m"`
	P  string `json:"p"`
	ID string `json:"id"`
}
type qOpFor struct {
	M     string `json:"m"`
	MU    string `json:"mu"`
	P     string `json:"p"`
	Found bool   `json:"found"`
	ID    string `json:"id"`
}
type qByName struct {
	ID    string `json:"id"`
	Found bool   `json:"found"`
	M     string `json:"m"`
	P     string `json:"p"`
}
type qReq struct {
	Name   string   `json:"name"`
	Scopes []string `json:"scopes"`
}
type qPerOp struct {
	M          string   `json:"m"`
	P          string   `json:"p"`
	Consumes   []string `json:"consumes"`
	Produces   []string `json:"produces"`
	SecNil     bool     `json:"secNil"`
	Sec        [][]qReq `json:"sec"`
	SecDefs    []string `json:"secdefs"`
	SecDefsReq []string `json:"secdefsReq"`
}
type qParam struct {
	Key  string `json:"key"`
	Name string `json:"name"`
	In   string `json:"inn"`
	Ref  bool   `json:"ref"`
	Tag  string `json:"tag"` // description|type: tells WHICH parameter of a given (in, name) was answered
}
type qErr struct {
	Ref  []string `json:"ref"`
	Kind string   `json:"kind"`
}
type qParams struct {
	Kind     string   `json:"kind"`
	M        string   `json:"m"`
	MU       string   `json:"mu"`
	P        string   `json:"p"`
	ByID     bool     `json:"byid"`
	ID       string   `json:"id"`
	Variant  string   `json:"variant"`
	Policy   string   `json:"policy"`
	Result   []qParam `json:"result"`
	Errors   []qErr   `json:"errors"`
	Panicked bool     `json:"panicked"`
}
type queriesRec struct {
	Tid         string            `json:"tid"`
	Doc         *Node             `json:"doc"`
	XKeys       []string          `json:"xkeys"`
	GN          map[string]string `json:"gn"`
	Ops         []qOp             `json:"ops"`
	OpFor       []qOpFor          `json:"opfor"`
	ByName      []qByName         `json:"byname"`
	IDs         []string          `json:"ids"`
	MethodPaths []string          `json:"methodpaths"`
	Paths       []string          `json:"paths"`
	PerOp       []qPerOp          `json:"perop"`
	ReqConsumes []string          `json:"reqConsumes"`
	ReqProduces []string          `json:"reqProduces"`
	ReqSchemes  []string          `json:"reqSchemes"`
	Params      []qParams         `json:"params"`
	// After: the same analyzer queried again after it was handed to Flatten (validated as a record of its own, tid + "~f")
	After *queriesRec `json:"after,omitempty"`
}

func strs(pj *Projector, xs []string) []string {
	out := make([]string, 0, len(xs))
	for _, x := range xs {
		out = append(out, pj.Names.scalarStr(x))
	}
	sort.Strings(out)
	return out
}

func opQueries(req *Req) (any, map[string]string, error) {
	names := NewNameTable()
	for p, c := range req.Names {
		names.Bind(p, c)
	}
	names.rebuild()
	pj := &Projector{Names: names, Files: &FileTable{Paths: req.Files}}
	sw, err := loadSwagger(req.Files["root"])
	if err != nil {
		return nil, nil, fmt.Errorf("load: %w", err)
	}
	an := analysis.New(sw)
	rec, err := collectQueries(req.ID, pj, names, an, sw)
	if err != nil {
		return nil, nil, err
	}
	var args analyzeArgs
	if len(req.Args) > 0 {
		json.Unmarshal(req.Args, &args)
	}
	if args.ThenFlatten {
		if ferr := analysis.Flatten(analysis.FlattenOpts{Spec: an, BasePath: req.Files["root"], Minimal: !args.Full, RemoveUnused: args.Full}); ferr == nil {
			if aft, e2 := collectQueries(req.ID+"~f", pj, names, an, sw); e2 == nil {
				rec.After = aft
			}
		}
	}
	return rec, names.ToConcrete, nil
}

// collectQueries asks the query layer of an analyzed spec everything the properties speak about, for the document as it stands.
func collectQueries(tid string, pj *Projector, names *NameTable, an *analysis.Spec, sw *spec.Swagger) (*queriesRec, error) {
	var err error
	rec := &queriesRec{Tid: tid, GN: map[string]string{}, Ops: []qOp{}, OpFor: []qOpFor{}, ByName: []qByName{}, IDs: []string{}, MethodPaths: []string{},
		Paths: []string{}, PerOp: []qPerOp{}, Params: []qParams{}}
	rec.Doc, _, err = projectSwagger(pj, sw)
	if err != nil {
		return nil, err
	}
	rec.XKeys = pj.XKeys(rec.Doc)
	rec.Doc.Walk(nil, func(_ []string, n *Node) {
		if nm, ok := n.At["name"].(string); ok && n.At["in"] != nil {
			rec.GN[nm] = swag.ToGoName(names.Conc(nm))
		}
	})
	pathTok := func(p string) string { return names.Abs(p) }
	mpTok := func(s string) string { // "METHOD /path" -> "METHOD <token>"
		if i := strings.Index(s, " "); i > 0 {
			return s[:i] + " " + pathTok(s[i+1:])
		}
		return s
	}
	allPaths := []string{}
	for p := range an.AllPaths() {
		allPaths = append(allPaths, p)
		rec.Paths = append(rec.Paths, pathTok(p))
	}
	sort.Strings(allPaths)
	sort.Strings(rec.Paths)
	ids := map[string]bool{}
	for m, byPath := range an.Operations() {
		for p, op := range byPath {
			rec.Ops = append(rec.Ops, qOp{M: m, P: pathTok(p), ID: names.scalarStr(op.ID)})
			ids[op.ID] = true
			po := qPerOp{M: m, P: pathTok(p), Consumes: strs(pj, an.ConsumesFor(op)), Produces: strs(pj, an.ProducesFor(op)), Sec: [][]qReq{}, SecDefs: []string{}, SecDefsReq: []string{}}
			reqs := an.SecurityRequirementsFor(op)
			po.SecNil = reqs == nil
			flat := []analysis.SecurityRequirement{}
			for _, alt := range reqs {
				a := []qReq{}
				for _, r := range alt {
					sc := r.Scopes
					if sc == nil {
						sc = []string{}
					}
					scs := make([]string, 0, len(sc))
					for _, x := range sc {
						scs = append(scs, names.scalarStr(x))
					}
					a = append(a, qReq{Name: names.scalarStr(r.Name), Scopes: scs})
					flat = append(flat, r)
				}
				sort.Slice(a, func(i, j int) bool { return a[i].Name < a[j].Name })
				po.Sec = append(po.Sec, a)
			}
			for k := range an.SecurityDefinitionsFor(op) {
				po.SecDefs = append(po.SecDefs, names.Abs(k))
			}
			for k := range an.SecurityDefinitionsForRequirements(flat) {
				po.SecDefsReq = append(po.SecDefsReq, names.Abs(k))
			}
			sort.Strings(po.SecDefs)
			sort.Strings(po.SecDefsReq)
			rec.PerOp = append(rec.PerOp, po)
		}
	}
	sort.Slice(rec.Ops, func(i, j int) bool { return rec.Ops[i].M+rec.Ops[i].P < rec.Ops[j].M+rec.Ops[j].P })
	sort.Slice(rec.PerOp, func(i, j int) bool { return rec.PerOp[i].M+rec.PerOp[i].P < rec.PerOp[j].M+rec.PerOp[j].P })
	isPath := map[string]bool{}
	for _, p := range allPaths {
		isPath[p] = true
	}
	for _, id := range an.OperationIDs() {
		if i := strings.Index(id, " "); i > 0 && isPath[id[i+1:]] {
			rec.IDs = append(rec.IDs, mpTok(id)) // "METHOD path" stands for an operation without id
		} else {
			rec.IDs = append(rec.IDs, names.scalarStr(id))
		}
	}
	for _, mp := range an.OperationMethodPaths() {
		rec.MethodPaths = append(rec.MethodPaths, mpTok(mp))
	}
	sort.Strings(rec.IDs)
	sort.Strings(rec.MethodPaths)
	rec.ReqConsumes = strs(pj, an.RequiredConsumes())
	rec.ReqProduces = strs(pj, an.RequiredProduces())
	rec.ReqSchemes = []string{}
	for _, s := range an.RequiredSecuritySchemes() {
		rec.ReqSchemes = append(rec.ReqSchemes, names.Abs(s))
	}
	sort.Strings(rec.ReqSchemes)
	// lookups: every method (in three spellings) x every path, plus a path that does not exist
	spell := func(m string, k int) string {
		switch k % 3 {
		case 0:
			return strings.ToLower(m)
		case 1:
			return m
		}
		return m[:1] + strings.ToLower(m[1:])
	}
	qpaths := append(append([]string{}, allPaths...), "/no/such/path")
	k := 0
	for _, p := range qpaths {
		for _, m := range []string{"GET", "PUT", "POST", "DELETE", "OPTIONS", "HEAD", "PATCH"} {
			k++
			q := spell(m, k)
			op, found := an.OperationFor(q, p)
			e := qOpFor{M: q, MU: strings.ToUpper(q), P: pathTok(p), Found: found && op != nil}
			if e.Found {
				e.ID = names.scalarStr(op.ID)
			}
			rec.OpFor = append(rec.OpFor, e)
		}
	}
	idList := []string{}
	for id := range ids {
		if id != "" {
			idList = append(idList, id)
		}
	}
	sort.Strings(idList)
	for _, id := range append(idList, "noSuchOperation") {
		m, p, _, found := an.OperationForName(id)
		rec.ByName = append(rec.ByName, qByName{ID: names.scalarStr(id), Found: found, M: m, P: pathTok(p)})
	}
	// effective parameters: every method x path (existing or not), by id for unique ids and an unknown id
	errKind := func(err error) string {
		if err == nil {
			return ""
		}
		if strings.Contains(err.Error(), "invalid reference") && !strings.Contains(err.Error(), "parameter") {
			return "dangling"
		}
		return "notparam"
	}
	briefs := func(m map[string]spec.Parameter) []qParam {
		out := []qParam{}
		for key, p := range m {
			out = append(out, qParam{Key: key, Name: names.scalarStr(p.Name), In: p.In, Ref: p.Ref.String() != "", Tag: names.scalarStr(p.Description) + "|" + p.Type})
		}
		sort.Slice(out, func(i, j int) bool { return out[i].Key < out[j].Key })
		return out
	}
	briefList := func(l []spec.Parameter) []qParam {
		out := []qParam{}
		for _, p := range l {
			out = append(out, qParam{Key: "", Name: names.scalarStr(p.Name), In: p.In, Ref: p.Ref.String() != "", Tag: names.scalarStr(p.Description) + "|" + p.Type})
		}
		sort.Slice(out, func(i, j int) bool { return out[i].Name+out[i].In < out[j].Name+out[j].In })
		return out
	}
	run := func(q qParams, f func(cb analysis.ErrorOnParamFunc) []qParam) {
		q.Result, q.Errors = []qParam{}, []qErr{}
		var cb analysis.ErrorOnParamFunc
		if q.Variant == "safe" {
			cb = func(p spec.Parameter, err error) bool {
				kind := "notparam"
				if strings.Contains(err.Error(), "is not a parameter") || strings.Contains(err.Error(), "resolved reference is not a parameter") {
					kind = "notparam"
				} else if strings.Contains(err.Error(), "invalid reference") {
					kind = "dangling"
				}
				q.Errors = append(q.Errors, qErr{Ref: pj.ParseRef(p.Ref.String(), "root"), Kind: kind})
				return q.Policy == "continue"
			}
		}
		func() {
			defer func() {
				if r := recover(); r != nil {
					q.Panicked = true
					q.Result = []qParam{}
				}
			}()
			q.Result = f(cb)
		}()
		rec.Params = append(rec.Params, q)
	}
	_ = errKind
	variants := []struct{ v, pol string }{{"safe", "continue"}, {"safe", "stop"}, {"plain", "continue"}}
	for _, p := range qpaths {
		for mi, m := range []string{"GET", "PUT", "POST", "DELETE", "OPTIONS", "HEAD", "PATCH"} {
			for _, vr := range variants {
				mq := spell(m, mi)
				q := qParams{Kind: "bypath", M: mq, MU: m, P: pathTok(p), Variant: vr.v, Policy: vr.pol}
				pp := p
				run(q, func(cb analysis.ErrorOnParamFunc) []qParam {
					if vr.v == "plain" {
						return briefs(an.ParamsFor(mq, pp))
					}
					return briefs(an.SafeParamsFor(mq, pp, cb))
				})
			}
		}
	}
	// by id (unique ids only) : need the (method, path) the id designates, taken from the document itself
	type mp struct{ m, p string }
	owner := map[string][]mp{}
	if sw.Paths != nil {
		for p, pi := range sw.Paths.Paths {
			for m, op := range map[string]*spec.Operation{"GET": pi.Get, "PUT": pi.Put, "POST": pi.Post, "DELETE": pi.Delete, "OPTIONS": pi.Options, "HEAD": pi.Head, "PATCH": pi.Patch} {
				if op != nil && op.ID != "" {
					owner[op.ID] = append(owner[op.ID], mp{m, p})
				}
			}
		}
	}
	for _, id := range append(idList, "noSuchOperation") {
		o := owner[id]
		if len(o) > 1 {
			continue
		}
		m, p := "GET", "/no/such/path"
		if len(o) == 1 {
			m, p = o[0].m, o[0].p
		}
		for _, vr := range variants {
			q := qParams{Kind: "byid", M: m, MU: m, P: pathTok(p), ByID: true, ID: names.scalarStr(id), Variant: vr.v, Policy: vr.pol}
			idc := id
			run(q, func(cb analysis.ErrorOnParamFunc) []qParam {
				if vr.v == "plain" {
					return briefList(an.ParametersFor(idc))
				}
				return briefList(an.SafeParametersFor(idc, cb))
			})
		}
	}
	return rec, nil
}

// genQueryDoc: documents for the query layer (operations, media types, security, parameters by value and by $ref).
func genQueryDoc(g *Gen, r *rand.Rand) *Node {
	d := skeleton()
	pick := func(pool []string, max int) []string {
		out := []string{}
		for _, i := range r.Perm(len(pool)) {
			if len(out) < max && r.Intn(2) == 0 {
				out = append(out, pool[i])
			}
		}
		return out
	}
	media := []string{"application/json", "application/xml", "text/plain"}
	if s := pick(media, 2); len(s) > 0 && r.Intn(2) == 0 {
		d.At["consumes"] = s
	}
	if s := pick(media, 2); len(s) > 0 && r.Intn(2) == 0 {
		d.At["produces"] = s
	}
	schemes := []string{"k1", "k2", "k3"}
	if r.Intn(3) > 0 {
		sd := NewNode()
		for _, k := range pick(schemes, 3) {
			n := NewNode()
			n.At["type"], n.At["in"], n.At["name"] = "apiKey", "header", "X-"+k
			sd.Ch[k] = n
		}
		if len(sd.Ch) > 0 {
			d.Ch["securityDefinitions"] = sd
		}
	}
	mkReq := func() *Node {
		n := NewNode()
		switch r.Intn(4) {
		case 0: // anonymous
		case 1:
			n.At[schemes[r.Intn(3)]] = []string{}
		case 2:
			n.At[schemes[r.Intn(3)]] = []string{"read"}
		default:
			n.At["k1"] = []string{}
			n.At["k2"] = []string{"write", "read"}
		}
		return n
	}
	if r.Intn(2) == 0 {
		d.Ch["security"] = listNode(mkReq())
	}
	// shared parameters (targets of $refs)
	shared := []string{}
	ps := NewNode()
	for i, n := 0, r.Intn(3); i < n; i++ {
		nm := g.newName()
		shared = append(shared, nm)
		p := g.simpleParam([]string{"limit", "offset", "X-Trace", "id", "UserId", "Url"}[r.Intn(6)])
		if r.Intn(2) == 0 {
			p.At["x-shared-note"] = "s" // an extension of its own: its map is shared by every copy of the parameter
		}
		ps.Ch[nm] = p
	}
	if len(ps.Ch) > 0 {
		d.Ch["parameters"] = ps
	}
	defs := NewNode()
	defs.Ch["N_50"] = leaf("object")
	g.newNameConcrete("unusedWidgetZ")
	g.Names.Bind("N_50", "widgetZ")
	d.Ch["definitions"] = defs
	serial := 0
	param := func(j int) *Node {
		switch k := r.Intn(8); {
		case k == 0 && len(shared) > 0:
			rn := refNode("root", "parameters", shared[r.Intn(len(shared))])
			if r.Intn(2) == 0 {
				rn.At["x-ref-note"] = "r" // an extension written beside the $ref
			}
			return rn
		case k == 1:
			return refNode("root", "parameters", "doesNotExist")
		case k == 2:
			if d.Ch["securityDefinitions"] != nil && r.Intn(2) == 0 {
				// resolves to a security scheme: not a parameter, although it has a name and a location
				return refNode("root", "securityDefinitions", sortedKeys(d.Ch["securityDefinitions"].Ch)[0])
			}
			return refNode("root", "definitions", "N_50") // resolves, but not to a parameter
		}
		// (names that differ by letter case only, or whose Go spelling folds an initialism: userId / UserId -> UserID, url / Url -> URL)
		p := g.simpleParam([]string{"limit", "offset", "X-Trace", "id", "filter", "userId", "UserId", "url", "Url"}[r.Intn(9)])
		serial++
		p.At["description"] = fmt.Sprintf("d%d", serial) // every inline parameter is distinguishable from its namesakes
		if r.Intn(6) == 0 {
			p.At["x-go-name"] = "Custom" + fmt.Sprint(j)
		}
		return p
	}
	paths := NewNode()
	usedIDs := map[string]bool{}
	if r.Intn(8) > 0 {
		for i, np := 0, 1+r.Intn(3); i < np; i++ {
			pi := NewNode()
			if r.Intn(2) == 0 {
				pl := []*Node{}
				// 1..5 path-level parameters: slices decoded from JSON get different spare capacities
				for j, n := 0, 1+r.Intn(5); j < n; j++ {
					pl = append(pl, param(j))
				}
				pi.Ch["parameters"] = listNode(pl...)
			}
			perm := r.Perm(len(allMethods))
			for j, nm := 0, r.Intn(4); j < nm; j++ {
				op := NewNode()
				if r.Intn(4) > 0 {
					id := []string{"listThings", "getThing", "putThing", "opA", "opB", "opC", "list things", "GET one thing"}[r.Intn(8)]
					if !usedIDs[id] || r.Intn(6) == 0 {
						usedIDs[id] = true
						op.At["operationId"] = id
					}
				}
				if s := pick(media, 2); len(s) > 0 && r.Intn(2) == 0 {
					op.At["consumes"] = s
				}
				if s := pick(media, 2); len(s) > 0 && r.Intn(2) == 0 {
					op.At["produces"] = s
				}
				switch r.Intn(4) {
				case 0:
					op.At["security"] = []string{} // explicitly empty: disables security
				case 1:
					op.Ch["security"] = listNode(mkReq())
				case 2:
					op.Ch["security"] = listNode(mkReq(), mkReq())
				}
				if r.Intn(2) == 0 {
					pl := []*Node{}
					for k, n := 0, 1+r.Intn(2); k < n; k++ {
						pl = append(pl, param(k))
					}
					op.Ch["parameters"] = listNode(pl...)
				}
				resp := NewNode()
				ok := NewNode()
				ok.At["description"] = "ok"
				resp.Ch["200"] = ok
				op.Ch["responses"] = resp
				pi.Ch[allMethods[perm[j]]] = op
			}
			paths.Ch[g.newPath()] = pi
		}
		d.Ch["paths"] = paths
	} else {
		delete(d.Ch, "paths")
	}
	return d
}

func checkQueries(prop, tier string, seed int64) int {
	rep := NewReport(prop, tier, seed)
	rep.Rule = "documents: TLC-enumerated decision tables (MC_Queries: media types, security, pairs of methods/ids, parameter lists) + seeded random generator (any subset of the seven methods per path, optional ids incl. duplicates and none, document/operation consumes/produces/security incl. explicitly empty security, securityDefinitions present/absent, " +
		"path-level and operation-level parameters inline or by $ref - valid, dangling, non-parameter - with (in,name) overlaps and x-go-name, documents without paths) + repository fixtures; every method spelling x every path (existing or not) and every id (known or not) is queried; " +
		"non-trivial: (C14) at least one operation, (C15) at least one parameter query over a bad $ref; distinct by document hash"
	rep.Assumptions = []string{"swag.ToGoName and strings.ToUpper supplied as relations", "projection (round-trip self-checked); TLC, Json module"}
	scratch, err := scratchDir("queries")
	if err != nil {
		rep.HarnessErr = append(rep.HarnessErr, err.Error())
		return rep.Finish()
	}
	if os.Getenv("VERIF_KEEP") == "" {
		defer os.RemoveAll(scratch)
	}
	cases := []*Case{}
	ngen := 250
	if tier == "thorough" {
		ngen = 5000
	}
	for i := 0; i < ngen; i++ {
		r := rand.New(rand.NewSource(seed*1000039 + int64(i)))
		g := NewGen(seed*1000039+int64(i), GenOpts{PlainNames: i%2 == 0})
		b := &Bundle{Docs: map[string]*Node{"root": genQueryDoc(g, r)}, Files: map[string]string{"root": "api/root.json"}}
		c := &Case{Tid: fmt.Sprintf("g%d", i), Source: "gen", Seed: seed, Bundle: b, Names: g.Names.ToConcrete}
		if err := c.Materialize(filepath.Join(scratch, "cases", c.Tid)); err != nil {
			rep.HarnessErr = append(rep.HarnessErr, err.Error())
			continue
		}
		if err := c.RoundTrip(); err != nil {
			rep.HarnessErr = append(rep.HarnessErr, err.Error())
			continue
		}
		if i%3 == 1 {
			c.NullScopes()
		}
		cases = append(cases, c)
	}
	// decision tables enumerated by TLC (MC_Queries), replayed
	mcStates, mcGen := 0, 0
	famInfo := map[string]any{}
	for fi, fam := range []string{"media", "security", "ops", "params"} {
		run, lines, err := runMC("MC_Queries", map[string]string{"Family": `"` + fam + `"`, "Export": "TRUE"}, 10*time.Minute, 8)
		if err != nil || run == nil || !run.OK {
			t := ""
			if run != nil {
				t = "invariant " + run.InvViolated + "\n" + run.Tail
			}
			rep.HarnessErr = append(rep.HarnessErr, fmt.Sprintf("MC_Queries family %s: %v %s", fam, err, t))
			continue
		}
		mcStates += run.Distinct
		mcGen += run.Generated
		famInfo[fam] = map[string]int{"distinct_states": run.Distinct, "documents_exported": run.Exported}
		r := rand.New(rand.NewSource(seed*37 + int64(fi)))
		r.Shuffle(len(lines), func(i, j int) { lines[i], lines[j] = lines[j], lines[i] })
		limit := len(lines)
		if tier != "thorough" && fam == "params" {
			limit = 500
		}
		for i, l := range lines {
			if i >= limit {
				break
			}
			var ex struct {
				Doc *Node `json:"doc"`
			}
			if e := json.Unmarshal([]byte(l), &ex); e != nil || ex.Doc == nil {
				rep.HarnessErr = append(rep.HarnessErr, "MC_Queries export not parseable")
				break
			}
			g := NewGen(seed*19+int64(i), GenOpts{PlainNames: i%2 == 0})
			b := &Bundle{Docs: map[string]*Node{"root": ex.Doc}, Files: map[string]string{"root": "api/root.json"}}
			bindPlaceholders(g, b.Docs)
			c := &Case{Tid: fmt.Sprintf("s%s%d", fam[:1], i), Source: "tlc", Seed: seed, Bundle: b, Names: g.Names.ToConcrete, Note: "family=" + fam}
			if err := c.Materialize(filepath.Join(scratch, "cases", c.Tid)); err != nil {
				rep.HarnessErr = append(rep.HarnessErr, err.Error())
				continue
			}
			if err := c.RoundTrip(); err != nil {
				rep.HarnessErr = append(rep.HarnessErr, err.Error())
				continue
			}
			cases = append(cases, c)
		}
	}
	rep.Extra["exhaustive_model_run"] = map[string]any{"module": "MC_Queries", "families": famInfo, "distinct_states": mcStates,
		"invariants": []string{"InvMedia", "InvSecurity", "InvParams"}}
	for i, f := range fixtureFiles() {
		if tier != "thorough" && i%3 != int(seed%3) {
			continue
		}
		if strings.Contains(f, "/azure/") {
			continue
		}
		cases = append(cases, &Case{Tid: fmt.Sprintf("f%d", i), Source: "fixture", Dir: filepath.Dir(f), Files: map[string]string{"root": f}, Names: map[string]string{}, Note: f})
	}
	reqs := make([]*Req, len(cases))
	for i, c := range cases {
		if c.Source == "fixture" {
			reqs[i] = c.Req("queries", nil)
			continue
		}
		// the analyzer is queried again after a Flatten (alternately Minimal and full+RemoveUnused) of its document
		reqs[i] = c.Req("queries", analyzeArgs{ThenFlatten: true, Full: i%2 == 1})
	}
	pool := &Pool{Exe: selfExe(), N: nWorkers(), Timeout: 20 * time.Second}
	resps := pool.Run(reqs)
	recs := []json.RawMessage{}
	for _, r := range resps {
		if r.Err == "" && r.Crash == "" && r.Rec != nil {
			var full queriesRec
			if json.Unmarshal(r.Rec, &full) == nil && full.After != nil {
				aft := full.After
				full.After = nil
				if b1, e1 := json.Marshal(&full); e1 == nil {
					if b2, e2 := json.Marshal(aft); e2 == nil {
						recs = append(recs, b1, b2)
						continue
					}
				}
			}
			recs = append(recs, r.Rec)
		}
	}
	tl, err := RunTraceValidation(scratch, "Trace_Queries", recs, 30*time.Minute)
	if err != nil || tl == nil || !tl.OK {
		rep.HarnessErr = append(rep.HarnessErr, fmt.Sprintf("Trace_Queries: %v", err))
		if tl != nil {
			rep.HarnessErr = append(rep.HarnessErr, tail(stripExports(tl.Out), 25))
		}
		return rep.Finish()
	}
	rep.States, rep.Transitions = tl.Distinct+mcStates, tl.Generated+mcGen
	diags := map[string][]string{}
	for _, d := range tl.Diags {
		tid, p, _, _ := diagShape(d)
		if p == prop {
			diags[tid] = append(diags[tid], d)
		}
	}
	for i, c := range cases {
		r := resps[i]
		if r.Crash != "" {
			replay := c.SaveReplay(prop, "queries", nil, map[string]string{"detail.txt": r.Detail})
			rep.AddViolation(Violation{Prop: prop, Tid: c.Tid, Sig: prop + ":crash." + r.Crash + ":" + crashSite(r.Detail), What: "[" + c.Note + "] " + firstLines(r.Detail, 3), Replay: replay})
			rep.Evaluations++
			continue
		}
		if r.Err != "" {
			if c.Source != "fixture" {
				rep.HarnessErr = append(rep.HarnessErr, c.Tid+": "+r.Err)
			}
			continue
		}
		v, ok := tl.Verdicts[c.Tid]
		if !ok {
			rep.HarnessErr = append(rep.HarnessErr, "no verdict for "+c.Tid)
			continue
		}
		rep.Evaluations++
		st := tl.Stats[c.Tid]
		if len(st) >= 3 && ((prop == "C14" && st[0] > 0) || (prop == "C15" && st[2] > 0)) {
			rep.Distinct[hash8(string(r.Rec))] = true
			if len(rep.Samples) < 3 {
				rep.Samples = append(rep.Samples, map[string]any{"tid": c.Tid, "source": c.Source, "note": c.Note, "operations": st[0], "parameter_queries": st[1], "queries_over_bad_refs": st[2]})
			}
		}
		tidBad, pre := c.Tid, ""
		if v2, has := tl.Verdicts[c.Tid+"~f"]; has {
			rep.Evaluations++
			if v[prop] && !v2[prop] {
				tidBad, pre = c.Tid+"~f", "after-flatten:" // right after New, not any more after Flatten
			} else if v2[prop] {
				rep.TracesOK++
			}
		}
		if v[prop] && tidBad == c.Tid {
			rep.TracesOK++
			continue
		}
		sig, what := prop+":"+pre+"unclassified", "verdict false"
		if ds := diags[tidBad]; len(ds) > 0 {
			_, _, clause, shape := diagShape(ds[0])
			sig = prop + ":" + pre + clause + ":" + shape
			what = ds[0]
			if len(what) > 500 {
				what = what[:500]
			}
		}
		var rargs any
		if c.Source != "fixture" {
			rargs = analyzeArgs{ThenFlatten: true, Full: i%2 == 1}
		}
		replay := c.SaveReplay(prop, "queries", rargs, map[string]string{"diag.txt": strings.Join(diags[tidBad], "\n"), "record.json": string(r.Rec)})
		rep.AddViolation(Violation{Prop: prop, Tid: c.Tid, Sig: sig, What: "[" + c.Note + "] " + what, Replay: replay})
	}
	return rep.Finish()
}
