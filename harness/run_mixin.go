package main

// Worker side of C17 / C18: runs analysis.Mixin on every prefix of a history (fresh copies each time) and records
// the state after each mixin.

import (
	"encoding/json"
	"fmt"
	"sort"
	"strings"

	"github.com/go-openapi/analysis"
	"github.com/go-openapi/spec"
)

func init() { workerOps["mixin"] = opMixin }

type mixinRec struct {
	Tid      string   `json:"tid"`
	Docs     []*Node  `json:"docs"`
	XA       []string `json:"xa"`
	Results  []*Node  `json:"results"`
	Skipped  []int    `json:"skipped"`
	Panicked []bool   `json:"panicked"`
	Detail   string   `json:"-"`
}

func xNames(pj *Projector, n *Node, set map[string]bool) {
	n.Walk(nil, func(_ []string, m *Node) {
		for l := range m.Ch {
			if strings.HasPrefix(strings.ToLower(pj.Names.Conc(l)), "x-") {
				set[l] = true
			}
		}
		for a := range m.At {
			if strings.HasPrefix(strings.ToLower(pj.Names.Conc(a)), "x-") {
				set[a] = true
			}
		}
	})
}

func opMixin(req *Req) (any, map[string]string, error) {
	names := NewNameTable()
	for p, c := range req.Names {
		names.Bind(p, c)
	}
	names.rebuild()
	pj := &Projector{Names: names, Files: &FileTable{Paths: req.Files}}
	ids := []string{}
	for id := range req.Files {
		ids = append(ids, id)
	}
	sort.Slice(ids, func(i, j int) bool { // d0, d1, ... d10
		var a, b int
		fmt.Sscanf(ids[i], "d%d", &a)
		fmt.Sscanf(ids[j], "d%d", &b)
		return a < b
	})
	rec := &mixinRec{Tid: req.ID, XA: []string{}}
	xs := map[string]bool{}
	load := func(j int) ([]*spec.Swagger, error) {
		out := []*spec.Swagger{}
		for _, id := range ids[:j+1] {
			sw, err := loadSwagger(req.Files[id])
			if err != nil {
				return nil, fmt.Errorf("load %s: %w", id, err)
			}
			out = append(out, sw)
		}
		return out, nil
	}
	docs, err := load(len(ids) - 1)
	if err != nil {
		return nil, nil, err
	}
	for _, d := range docs {
		n, _, err := projectSwagger(pj, d)
		if err != nil {
			return nil, nil, err
		}
		rec.Docs = append(rec.Docs, n)
		xNames(pj, n, xs)
	}
	for j := range ids {
		ds, err := load(j)
		if err != nil {
			return nil, nil, err
		}
		var skipped []string
		panicked := false
		func() {
			defer func() {
				if r := recover(); r != nil {
					panicked = true
					rec.Detail += fmt.Sprintf("panic after %d mixins: %v\n", j, r)
				}
			}()
			skipped = analysis.Mixin(ds[0], ds[1:]...)
		}()
		res := NewNode()
		if !panicked {
			b, err := json.Marshal(ds[0])
			if err != nil {
				return nil, nil, err
			}
			res, err = pj.ProjectBytes(b, "root")
			if err != nil {
				return nil, nil, err
			}
			xNames(pj, res, xs)
		}
		rec.Results = append(rec.Results, res)
		rec.Skipped = append(rec.Skipped, len(skipped))
		rec.Panicked = append(rec.Panicked, panicked)
	}
	for k := range xs {
		rec.XA = append(rec.XA, k)
	}
	sort.Strings(rec.XA)
	return rec, names.ToConcrete, nil
}
