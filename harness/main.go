package main

import (
	"flag"
	"fmt"
	"os"
	"runtime"
	"strconv"
)

type checkFunc func(prop, tier string, seed int64) int

var checks = map[string]checkFunc{}

func envSeed() int64 {
	if s := os.Getenv("VERIF_SEED"); s != "" {
		if n, err := strconv.ParseInt(s, 10, 64); err == nil {
			return n
		}
	}
	return 1
}

func nWorkers() int {
	n := runtime.NumCPU()
	if n > 16 {
		n = 16
	}
	if n < 2 {
		n = 2
	}
	return n
}

func main() {
	if len(os.Args) < 2 {
		fmt.Println("usage: harness check <ID> [--tier quick|thorough] | worker | replay <dir>")
		os.Exit(2)
	}
	switch os.Args[1] {
	case "worker":
		workerMain()
	case "check":
		fs := flag.NewFlagSet("check", flag.ExitOnError)
		tier := fs.String("tier", "", "quick|thorough")
		if len(os.Args) < 3 {
			os.Exit(2)
		}
		prop := os.Args[2]
		fs.Parse(os.Args[3:])
		if *tier == "" {
			*tier = os.Getenv("VERIF_TIER")
		}
		if *tier == "" {
			*tier = "quick"
		}
		f := checks[prop]
		if f == nil {
			fmt.Printf("no check for %s\n", prop)
			os.Exit(2)
		}
		os.Exit(f(prop, *tier, envSeed()))
	case "replay":
		if len(os.Args) < 3 {
			os.Exit(2)
		}
		os.Exit(replay(os.Args[2]))
	default:
		if f, ok := tools[os.Args[1]]; ok {
			os.Exit(f(os.Args[2:]))
		}
		fmt.Println("unknown command", os.Args[1])
		os.Exit(2)
	}
}

var tools = map[string]func(args []string) int{}
