package main

// C01..C06, C08, C09, C10: properties of Flatten decided by TLC on states recorded from the real code (Trace_Flatten).

import (
	"bytes"
	"encoding/json"
	"fmt"
	"os"
	"path/filepath"
	"regexp"
	"strings"
	"time"
)

func init() {
	for _, p := range []string{"C01", "C02", "C03", "C04", "C05", "C06", "C08", "C10"} {
		checks[p] = checkFlatten
	}
	checks["FLATTEN"] = checkFlattenAll
	// (replays go through the generic replayer: the operation is re-executed and TLC judges the new record)
}

var baseOptSets = []flattenOpts{
	{Minimal: true}, {Minimal: true, RemoveUnused: true},
	{}, {RemoveUnused: true},
	{Expand: true}, {Expand: true, RemoveUnused: true},
}

// inW decides membership of (bundle, option set) in the class W of the properties.
func inW(f Features, o flattenOpts) bool {
	if f.WPlus {
		return false
	}
	if f.Anon && o.Expand {
		return false
	}
	if f.SharedPtr && (o.Expand || o.RemoveUnused) {
		return false
	}
	if o.KeepNames && f.NAux > 0 {
		return false
	}
	return true
}

func flattenGenOpts(i int) GenOpts {
	o := GenOpts{MaxDepth: 1 + i%3, NDefs: 2 + i%4, NAux: 3, Shared: true, Collisions: i%3 == 0}
	switch i % 4 {
	case 0:
		o.NAux = 0
		o.AnonPointers = true
		o.SharedPtrs = i%8 == 0
	case 1:
		o.AnonPointers = i%8 == 1
	}
	if i%3 == 1 {
		o.PlainNames = true
	}
	if i%10 == 7 {
		o.AllKeywords = true
	}
	o.Decor = i%2 == 0 // patterns / enums / headers: indexed by the analyzer under pointers that Flatten moves (C10)
	return o
}

type flattenRun struct {
	c    *Case
	args flattenArgs
	tid  string
}

type flattenCampaign struct {
	runs    []*flattenRun
	resps   []*Resp
	tlc     *TLCResult
	scratch string
	errs    []string
}

func buildFlattenRuns(tier string, seed int64, scratch string, which string) ([]*flattenRun, []string) {
	nb := 60
	if tier == "thorough" {
		nb = 700
	}
	runs := []*flattenRun{}
	errs := []string{}
	addRuns := func(c *Case, i int) {
		b := c.Bundle
		sets := append([]flattenOpts{}, baseOptSets...)
		if b.Feat.NAux == 0 && i%2 == 0 {
			sets = append(sets, flattenOpts{KeepNames: true}, flattenOpts{Minimal: true, KeepNames: true, RemoveUnused: true})
		}
		if i%4 == 1 {
			// Expand together with Minimal is still "Flatten with Expand" (C05)
			sets = append(sets, flattenOpts{Expand: true, Minimal: true, RemoveUnused: i%8 == 1})
		}
		for j, o := range sets {
			// phase snapshots (L1 contracts, L2 step conformance) are recorded for a rotating third of the runs in the quick tier
			phases := (i+j+int(seed))%3 == 0
			args := flattenArgs{Opts: o, InW: inW(b.Feat, o), Second: !o.Expand, Rerun: o.Expand, Getters: true, Phases: phases, Anon: b.Feat.Anon || b.Feat.SharedPtr}
			runs = append(runs, &flattenRun{c: c, args: args, tid: fmt.Sprintf("%so%d", c.Tid, j)})
		}
	}
	for i := 0; i < nb; i++ {
		g := NewGen(seed*1000003+int64(i)*17+5, flattenGenOpts(i))
		b := g.GenBundle()
		if g.o.AllKeywords {
			b.Feat.WPlus = true // keywords outside Swagger 2.0: the run counts for C09 and for step conformance only
		}
		c := &Case{Tid: fmt.Sprintf("b%d", i), Source: "gen", Seed: seed*1000003 + int64(i)*17 + 5, Bundle: b, Names: g.Names.ToConcrete, RefStyle: 0}
		if err := c.Materialize(filepath.Join(scratch, c.Tid)); err != nil {
			errs = append(errs, err.Error())
			continue
		}
		if err := c.RoundTrip(); err != nil {
			errs = append(errs, err.Error())
			continue
		}
		addRuns(c, i)
	}
	sc, e := scenarioCases("flatten", tier, seed, scratch)
	errs = append(errs, e...)
	for i, c := range sc {
		addRuns(c, i)
	}
	return runs, errs
}

func runFlattenCampaign(tier string, seed int64) (*flattenCampaign, error) {
	scratch, err := scratchDir("flatten")
	if err != nil {
		return nil, err
	}
	fc := &flattenCampaign{scratch: scratch}
	fc.runs, fc.errs = buildFlattenRuns(tier, seed, filepath.Join(scratch, "cases"), "")
	reqs := make([]*Req, len(fc.runs))
	for i, r := range fc.runs {
		rq := r.c.Req("flatten", r.args)
		rq.ID = r.tid
		reqs[i] = rq
	}
	pool := &Pool{Exe: selfExe(), N: nWorkers(), Timeout: 10 * time.Second}
	fc.resps = pool.Run(reqs)
	pool.Confirm(reqs, fc.resps, 20*time.Second)
	recs := []json.RawMessage{}
	for i, r := range fc.resps {
		if r.Crash != "" {
			// synthesize a record so that TLC gives the C09 / C04 verdict
			rec := &flattenRec{Tid: fc.runs[i].tid, Mode: fc.runs[i].args.Opts.Mode(), RU: fc.runs[i].args.Opts.RemoveUnused, InW: fc.runs[i].args.InW,
				Bundle: map[string]*Node{"root": NewNode()}, Doc: NewNode(), Doc2: NewNode(), XKeys: []string{}, Fold: map[string]string{}, Crash: r.Crash,
				Phases: []phaseSnap{}, Events: []stepEvent{},
				Err: "crash: " + r.Crash, Getters: emptyFull(), Fresh: emptyFull()}
			b, _ := json.Marshal(rec)
			recs = append(recs, b)
			continue
		}
		if r.Err == "" && r.Rec != nil {
			recs = append(recs, r.Rec)
		}
	}
	if len(recs) == 0 {
		return fc, fmt.Errorf("no record to validate")
	}
	to := 15 * time.Minute
	if tier == "thorough" {
		to = 60 * time.Minute
	}
	// L2: the constructive pipeline model, explored exhaustively over the pointer-free / collision-free scenario sub-family
	tk := `{"local", "aux1", "mutual", "anonprop"}`
	hk := `{"prop", "allof", "opbody", "nested", "sharedresp", "auxresp"}`
	h2k := `{"none", "code"}`
	if tier == "thorough" {
		h2k = `{"none", "code", "prop2", "same"}`
		tk = `{"local", "aux1", "aux2", "aux3", "trans", "selfrec", "mutual", "arrayself", "mapself", "auxarrayself", "diamond", "uptrans", "crosstrans", "recdep", "recmap", "auxcase", "auxempty", "anonprop", "anonimport", "anoncase", "anonbackup", "anonitems", "anonallof", "sharedparam", "sharedresp"}`
		hk = `{"prop", "items", "tuple", "addprops", "additems", "allof", "alias", "opbody", "pathbody", "code", "default", "sharedparam", "sharedresp", "nested", "opnested", "opitems", "auxresp", "auxparam", "auxpathitem", "unusedparam", "unusedresp", "unusedalias", "casesiblings", "pathbodyinline", "oddcode", "dupids", "refsib", "unuseddef", "additems1"}`
	}
	mc, _, mcErr := runMC("MC_Flatten", map[string]string{"TKinds": tk, "HKinds": hk, "H2Kinds": h2k}, 40*time.Minute, nWorkers())
	lastMC["flattenPipeline"] = mc
	if mcErr != nil || mc == nil || !mc.OK {
		t := ""
		if mc != nil {
			t = "invariant " + mc.InvViolated + "\n" + mc.Tail
		}
		fc.errs = append(fc.errs, fmt.Sprintf("MC_Flatten (pipeline model) failed: %v %s", mcErr, t))
	}
	fc.tlc, err = RunTraceValidation(scratch, "Trace_Flatten", recs, to)
	return fc, err
}

var flattenRule = map[string]string{
	"C01": "non-trivial: Flatten succeeded on a bundle of W and rewrote at least one $ref or definition",
	"C02": "non-trivial: successful minimal/full flatten of a bundle of W holding at least one $ref",
	"C03": "non-trivial: successful full flatten of a bundle of W",
	"C04": "non-trivial: any (bundle of W, option set)",
	"C05": "non-trivial: successful Expand of a bundle of W holding at least one $ref",
	"C06": "non-trivial: successful flatten with RemoveUnused of a bundle of W",
	"C08": "non-trivial: successful minimal/full flatten of a bundle of W, flattened a second time",
	"C10": "non-trivial: successful flatten with the analyzer state recorded",
}

var (
	memoFC    *flattenCampaign
	memoFCErr error
	memoFCKey string
)

// cachedFlattenCampaign runs the campaign once per process (the FLATTEN pseudo-check reports all properties from one run).
func cachedFlattenCampaign(tier string, seed int64) (*flattenCampaign, error) {
	key := fmt.Sprintf("%s/%d", tier, seed)
	if memoFCKey != key {
		memoFC, memoFCErr = runFlattenCampaign(tier, seed)
		memoFCKey = key
		if memoFC != nil && os.Getenv("VERIF_KEEP") == "" {
			os.RemoveAll(filepath.Join(memoFC.scratch, "cases-done"))
		}
	}
	return memoFC, memoFCErr
}

func cleanupFlattenCampaign() {
	if memoFC != nil && os.Getenv("VERIF_KEEP") == "" {
		os.RemoveAll(memoFC.scratch)
	}
}

func checkFlattenAll(_ string, tier string, seed int64) int {
	rc := 0
	for _, p := range []string{"C01", "C02", "C03", "C04", "C05", "C06", "C08", "C10"} {
		if r := checkFlattenOne(p, tier, seed); r > rc {
			rc = r
		}
	}
	cleanupFlattenCampaign()
	return rc
}

func checkFlatten(prop, tier string, seed int64) int {
	defer cleanupFlattenCampaign()
	return checkFlattenOne(prop, tier, seed)
}

func checkFlattenOne(prop, tier string, seed int64) int {
	rep := NewReport(prop, tier, seed)
	rep.Rule = "bundles: the directed corpus (corpus/flatten.txt) + a seeded sample of the TLC-enumerated scenario family (MC_FlattenScen: target kind x shape x holder kind x second holder x collision) + every name enumerated by MC_Keys planted in every role of four scenarios + a seeded random generator over W (root + 0..3 auxiliary documents in nested directories, recursive/cross-file/colliding definitions, anonymous pointers, shared objects, full name alphabet), each x every option set (incl. KeepNames for single documents, Expand+Minimal); " + flattenRule[prop] + "; distinct by (hash of the abstract bundle, option set); C01/C04 add the (base, ref) pairs of MC_Paths run through the real rebasing functions"
	rep.Assumptions = []string{"projection JSON->tree and $ref parsing in the harness (round-trip self-checked)", "TLC, SANY, CommunityModules Json",
		"membership in W is by construction of the generator", "go-openapi/spec (ExpandSpec, loader) is the environment"}
	fc, err := cachedFlattenCampaign(tier, seed)
	if err != nil {
		rep.HarnessErr = append(rep.HarnessErr, err.Error())
		if fc != nil && fc.tlc != nil {
			rep.HarnessErr = append(rep.HarnessErr, tail(stripExports(fc.tlc.Out), 20))
		}
		return rep.Finish()
	}
	rep.HarnessErr = append(rep.HarnessErr, fc.errs...)
	if !fc.tlc.OK {
		rep.HarnessErr = append(rep.HarnessErr, "TLC did not complete:\n"+tail(stripExports(fc.tlc.Out), 25))
	}
	rep.States, rep.Transitions = fc.tlc.Distinct, fc.tlc.Generated
	if mc := lastMC["flatten"]; mc != nil {
		rep.States += mc.Distinct
		rep.Transitions += mc.Generated
		rep.Extra["exhaustive_model_run"] = map[string]any{"module": mc.Module, "distinct_states": mc.Distinct, "states_generated": mc.Generated,
			"bundles_exported": mc.Exported, "wall_s": mc.WallS, "invariants": []string{"AllResolve", "NoBackRef", "CycleAsExpected", "HoldersTyped"}}
	}
	diags := map[string][]string{}
	for _, d := range fc.tlc.Diags {
		tid, p, _, _ := diagShape(d)
		if p == prop {
			diags[tid] = append(diags[tid], d)
		}
	}
	for i, run := range fc.runs {
		r := fc.resps[i]
		if r.Err != "" {
			rep.HarnessErr = append(rep.HarnessErr, run.tid+": "+r.Err)
			continue
		}
		v, ok := fc.tlc.Verdicts[run.tid]
		if !ok {
			rep.HarnessErr = append(rep.HarnessErr, "no verdict for "+run.tid)
			continue
		}
		res, applicable := v[prop]
		if !applicable {
			continue
		}
		rep.Evaluations++
		st := fc.tlc.Stats[run.tid]
		rep.Distinct[run.c.Bundle.Docs["root"].Hash()+run.args.Opts.String()] = true
		if len(rep.Samples) < 3 && len(st) >= 5 {
			rep.Samples = append(rep.Samples, map[string]any{"tid": run.tid, "opts": run.args.Opts.String(), "documents": st[0], "defs_before": st[1], "defs_after": st[2],
				"refs_before": st[3], "refs_after": st[4], "features": run.c.Bundle.Feat, "scenario": run.c.Note, "names": sampleNames(run.c.Names)})
		}
		if res {
			rep.TracesOK++
			continue
		}
		sig, what := prop+":unclassified", "verdict false"
		if ds := diags[run.tid]; len(ds) > 0 {
			_, _, clause, shape := diagShape(ds[0])
			sig = prop + ":" + clause + ":" + shape
			what = ds[0]
			if len(what) > 400 {
				what = what[:400]
			}
		}
		if prop == "C04" && r.Rec != nil {
			var fr flattenRec
			json.Unmarshal(r.Rec, &fr)
			sig = "C04:error." + run.args.Opts.Mode() + ":" + scenFeature(run.c) + ":" + normErr(fr.Err)
		}
		sig += nameClassSig(run.c)
		replay := run.c.SaveReplay(prop, "flatten", run.args, map[string]string{"diag.txt": strings.Join(diags[run.tid], "\n") + "\n" + r.Detail, "record.json": string(r.Rec)})
		if run.c.Note != "" {
			what = "[scenario " + run.c.Note + " opts " + run.args.Opts.String() + "] " + what
		} else {
			what = "[opts " + run.args.Opts.String() + "] " + what
		}
		rep.AddViolation(Violation{Prop: prop, Tid: run.tid, Sig: sig, What: what, Replay: replay})
	}
	if mc := lastMC["flattenPipeline"]; mc != nil && mc.OK {
		rep.States += mc.Distinct
		rep.Transitions += mc.Generated
		rep.Extra["pipeline_model_run"] = map[string]any{"module": "MC_Flatten", "distinct_states": mc.Distinct, "states_generated": mc.Generated, "wall_s": mc.WallS,
			"constants": mc.Constants, "invariants": []string{"InvC01Inductive", "InvC01", "InvC02", "InvC03", "InvC05", "InvC06", "InvC08", "InvIsPipeline", "InvLemmas"}}
	}
	if prop == "C06" {
		// the removal loop as a state machine over every reference graph on 3 (thorough: 4) names: termination + fixpoint properties
		names := "{a, b, c}"
		if tier == "thorough" {
			names = "{a, b, c, d}"
		}
		rl, _, rlErr := runMC("RemoveLoop", map[string]string{"Names": names}, 20*time.Minute, nWorkers())
		if rlErr != nil || rl == nil || !rl.OK {
			rep.HarnessErr = append(rep.HarnessErr, fmt.Sprintf("RemoveLoop model failed: %v", rlErr))
		} else {
			rep.States += rl.Distinct
			rep.Transitions += rl.Generated
			rep.Extra["removal_loop_model_run"] = map[string]any{"module": "RemoveLoop", "names": names, "distinct_states": rl.Distinct,
				"invariants": []string{"AllUsed", "NoDangling", "RootsKept"}, "temporal": []string{"Shrinks (action property)", "Terminates (liveness under WF)"}}
		}
	}
	// step-level conformance (L2): how many recorded runs are fully explained by the constructive operators of Flatten.tla
	conform, stepChecked, drift := 0, 0, map[string]int{}
	for _, run := range fc.runs {
		if v, ok := fc.tlc.Verdicts[run.tid]; ok {
			if sv, has := v["STEPS"]; has {
				stepChecked++
				if sv {
					conform++
				} else {
					drift["?"]++
				}
			}
		}
	}
	l1ok, l1bad := 0, map[string]int{}
	for _, run := range fc.runs {
		if v, ok := fc.tlc.Verdicts[run.tid]; ok {
			if lv, has := v["L1"]; has && lv {
				l1ok++
			}
		}
	}
	for _, d := range fc.tlc.Diags {
		if _, p, clause, _ := diagShape(d); p == "L1" {
			l1bad[clause]++
		}
	}
	rep.Extra["phase_contracts_ok_runs"] = l1ok
	if len(l1bad) > 0 {
		rep.Extra["phase_contracts_broken"] = l1bad
		rep.Notes = append(rep.Notes, fmt.Sprintf("phase-contract: %v (C01 as an inductive invariant / C02 lemmas / pipeline shape at the hook points; the properties are judged on what Flatten returns)", l1bad))
	}
	driftSample := ""
	for _, d := range fc.tlc.Diags {
		if _, p, clause, _ := diagShape(d); p == "STEPS" {
			drift[clause]++
			if driftSample == "" {
				driftSample = d
				if len(driftSample) > 700 {
					driftSample = driftSample[:700]
				}
			}
		}
	}
	if driftSample != "" {
		rep.Extra["model_drift_sample"] = driftSample
	}
	delete(drift, "?")
	rep.Extra["step_conformant_runs"] = conform
	rep.Extra["step_checked_runs"] = stepChecked
	if len(drift) > 0 {
		rep.Extra["model_drift_by_phase"] = drift
		rep.Notes = append(rep.Notes, fmt.Sprintf("model-drift: %v (phase transitions not explained by Flatten.tla; properties are judged on the recorded states regardless)", drift))
	}
	// conformance of the flatten context (Dedup.tla): every logged de-duplication step is an enabled step of the model
	ctxOK, ctxChecked, ctxDrift, ctxWithStrip := 0, 0, map[string]int{}, 0
	for _, run := range fc.runs {
		if v, ok := fc.tlc.Verdicts[run.tid]; ok {
			if cv, has := v["CTX"]; has {
				ctxChecked++
				if cv {
					ctxOK++
				}
			}
		}
	}
	for _, d := range fc.tlc.Diags {
		if _, p, clause, _ := diagShape(d); p == "CTX" {
			ctxDrift[clause]++
		}
	}
	for i := range fc.runs {
		if r := fc.resps[i]; r != nil && r.Rec != nil && bytes.Contains(r.Rec, []byte(`"ev":"strip.one"`)) {
			if v, ok := fc.tlc.Verdicts[fc.runs[i].tid]; ok {
				if _, has := v["CTX"]; has {
					ctxWithStrip++
				}
			}
		}
	}
	rep.Extra["context_conformant_runs"] = ctxOK
	rep.Extra["context_checked_runs"] = ctxChecked
	rep.Extra["context_checked_runs_with_deduplication"] = ctxWithStrip
	if len(ctxDrift) > 0 {
		rep.Extra["context_drift"] = ctxDrift
		rep.Notes = append(rep.Notes, fmt.Sprintf("context-drift: %v (de-duplication steps not explained by Dedup.tla; properties are judged on the recorded states regardless)", ctxDrift))
	}
	rep.Extra["tlc_wall_s"] = fc.tlc.WallS
	rep.Extra["runs"] = len(fc.runs)
	if prop == "C01" || prop == "C04" {
		// the mechanism both rest on: rebasing of the $refs of an imported schema (function-level conformance with Paths.tla)
		runPathsComponent(rep, tier)
	}
	return rep.Finish()
}

// nameClassSig tells whether the case uses names that need escaping (part of a violation's signature).
func nameClassSig(c *Case) string {
	if c.Bundle != nil && c.Bundle.Feat.NonPlain {
		return ":names=escaped"
	}
	return ":names=plain"
}

func replayFlatten(prop string, c *Case, args json.RawMessage) int {
	fmt.Println("replay of flatten cases: run `go test` style reproduction with files under", c.Dir)
	pool := &Pool{Exe: selfExe(), N: 1, Timeout: 30 * time.Second}
	rq := &Req{ID: c.Tid, Op: "flatten", Dir: c.Dir, Files: c.Files, Names: c.Names, Args: args}
	r := pool.RunOne(rq, 30*time.Second)
	fmt.Printf("crash=%q err=%q\n", r.Crash, r.Err)
	if r.Rec != nil {
		var rec flattenRec
		json.Unmarshal(r.Rec, &rec)
		fmt.Printf("ok=%v err=%q ok2=%v same2=%v loads=%d\n", rec.OK, rec.Err, rec.OK2, rec.Same2, rec.Loads)
	}
	return 0
}

var (
	reErrQuoted = regexp.MustCompile(`"[^"]*"`)
	reErrKey    = regexp.MustCompile(`#?/[^\s:,]+`)
	reErrNum    = regexp.MustCompile(`[0-9]+`)
)

// normErr abstracts an error text: names, keys and numbers are replaced so that one defect has one signature.
func normErr(e string) string {
	e = reErrQuoted.ReplaceAllString(e, "*")
	e = reErrKey.ReplaceAllString(e, "KEY")
	e = reErrNum.ReplaceAllString(e, "N")
	e = strings.ReplaceAll(e, "\n", " ")
	e = strings.Join(strings.Fields(e), "_")
	if len(e) > 100 {
		e = e[:100]
	}
	return e
}

// scenFeature names the holder kind and collision pattern of a TLC-enumerated scenario (part of a violation's identity).
func scenFeature(c *Case) string {
	if c.Source != "tlc" || c.Note == "" {
		return "gen"
	}
	f := strings.Split(strings.Fields(c.Note)[0], ",")
	if len(f) < 5 {
		return "scen"
	}
	return "h=" + f[2] + ",c=" + f[4]
}
