package main

// C20: analysis.Schema() on every schema position of a document, against Classify.tla.

import (
	"encoding/json"
	"fmt"
	"os"
	"path/filepath"
	"sort"
	"strings"
	"time"

	"github.com/go-openapi/analysis"
	"github.com/go-openapi/strfmt"
)

func init() {
	checks["C20"] = checkClassify
	workerOps["classify"] = opClassify
}

type classifyEntry struct {
	P      []string        `json:"p"`
	Flags  map[string]bool `json:"flags"`
	Failed bool            `json:"failed"`
}

type classifyRec struct {
	Tid          string          `json:"tid"`
	Doc          *Node           `json:"doc"`
	KnownFormats []string        `json:"knownFormats"`
	Entries      []classifyEntry `json:"entries"`
	Crash        string          `json:"crash"`
}

func noFlags() map[string]bool {
	m := map[string]bool{}
	for _, k := range []string{"IsKnownType", "IsSimpleSchema", "IsArray", "IsSimpleArray", "IsMap", "IsSimpleMap", "IsExtendedObject", "IsTuple", "IsTupleWithExtra", "IsBaseType", "IsEnum"} {
		m[k] = false
	}
	return m
}

func opClassify(req *Req) (any, map[string]string, error) {
	names := NewNameTable()
	for p, c := range req.Names {
		names.Bind(p, c)
	}
	names.rebuild()
	pj := &Projector{Names: names, Files: &FileTable{Paths: req.Files}}
	sw, err := loadSwagger(req.Files["root"])
	if err != nil {
		return nil, nil, fmt.Errorf("load: %w", err)
	}
	rec := &classifyRec{Tid: req.ID, Crash: "none", KnownFormats: []string{}, Entries: []classifyEntry{}}
	rec.Doc, _, err = projectSwagger(pj, sw)
	if err != nil {
		return nil, nil, err
	}
	fm := map[string]bool{}
	rec.Doc.Walk(nil, func(_ []string, n *Node) {
		if f, ok := n.At["format"].(string); ok && strfmt.Default.ContainsName(names.Conc(f)) {
			fm[f] = true
		}
	})
	for f := range fm {
		rec.KnownFormats = append(rec.KnownFormats, f)
	}
	sort.Strings(rec.KnownFormats)
	an := analysis.New(sw)
	for _, sr := range an.AllDefinitions() {
		e := classifyEntry{P: pj.ParseRef(sr.Ref.String(), "root")[1:], Flags: noFlags()}
		as, err := analysis.Schema(analysis.SchemaOpts{Schema: sr.Schema, Root: sw, BasePath: req.Files["root"]})
		if err != nil || as == nil {
			e.Failed = true
		} else {
			e.Flags = map[string]bool{"IsKnownType": as.IsKnownType, "IsSimpleSchema": as.IsSimpleSchema, "IsArray": as.IsArray, "IsSimpleArray": as.IsSimpleArray,
				"IsMap": as.IsMap, "IsSimpleMap": as.IsSimpleMap, "IsExtendedObject": as.IsExtendedObject, "IsTuple": as.IsTuple,
				"IsTupleWithExtra": as.IsTupleWithExtra, "IsBaseType": as.IsBaseType, "IsEnum": as.IsEnum}
		}
		rec.Entries = append(rec.Entries, e)
	}
	sort.Slice(rec.Entries, func(i, j int) bool { return fmt.Sprint(rec.Entries[i].P) < fmt.Sprint(rec.Entries[j].P) })
	return rec, names.ToConcrete, nil
}

func checkClassify(prop, tier string, seed int64) int {
	rep := NewReport(prop, tier, seed)
	rep.Rule = "schemas: TLC-enumerated grammar (22 leaf kinds incl. $refs to 13 targets with self-containing arrays/maps and mutual recursion, 9 containers, nested to the bound) + every schema position of seeded random documents (incl. W+ container recursion) + repository fixtures; " +
		"every position is classified by the real Schema(); non-trivial: document with at least one $ref-only schema or container; distinct by document hash"
	rep.Assumptions = []string{"strfmt.Default.ContainsName decides which formats are known (relation supplied per case)", "schema positions are those listed by the analyzer (C12)", "projection; TLC, Json module"}
	scratch, err := scratchDir("classify")
	if err != nil {
		rep.HarnessErr = append(rep.HarnessErr, err.Error())
		return rep.Finish()
	}
	if os.Getenv("VERIF_KEEP") == "" {
		defer os.RemoveAll(scratch)
	}
	cases := []*Case{}
	add := func(c *Case) {
		if err := c.Materialize(filepath.Join(scratch, "cases", c.Tid)); err != nil {
			rep.HarnessErr = append(rep.HarnessErr, err.Error())
			return
		}
		cases = append(cases, c)
	}
	depth := "2"
	if tier == "thorough" {
		depth = "3"
	}
	run, lines, err := runMC("MC_Classify", map[string]string{"MaxDepth": depth, "Export": "TRUE"}, 20*time.Minute, nWorkers())
	if err != nil || run == nil || !run.OK {
		t := ""
		if run != nil {
			t = run.InvViolated + "\n" + run.Tail
		}
		rep.HarnessErr = append(rep.HarnessErr, fmt.Sprintf("MC_Classify: %v %s", err, t))
	} else {
		rep.Extra["exhaustive_model_run"] = map[string]any{"module": "MC_Classify", "distinct_states": run.Distinct, "schemas_exported": run.Exported, "max_depth": depth,
			"invariants": []string{"InvCoherent", "InvTargetsCoherent", "InvRefTransparent", "InvDocumented"}}
		rep.States += run.Distinct
		rep.Transitions += run.Generated
		for i, l := range lines {
			var ex struct {
				Doc *Node `json:"doc"`
			}
			if e := json.Unmarshal([]byte(l), &ex); e != nil || ex.Doc == nil {
				rep.HarnessErr = append(rep.HarnessErr, "MC_Classify export not parseable")
				break
			}
			g := NewGen(seed*17+int64(i), GenOpts{PlainNames: i%2 == 0})
			b := &Bundle{Docs: map[string]*Node{"root": ex.Doc}, Files: map[string]string{"root": "api/root.json"}}
			bindPlaceholders(g, b.Docs)
			add(&Case{Tid: fmt.Sprintf("s%d", i), Source: "tlc", Bundle: b, Names: g.Names.ToConcrete})
		}
	}
	ngen := 150
	if tier == "thorough" {
		ngen = 3000
	}
	for i := 0; i < ngen; i++ {
		g := NewGen(seed*1000037+int64(i), GenOpts{MaxDepth: 2 + i%2, NDefs: 4, Shared: true, AllKeywords: i%4 == 0, PlainNames: i%3 == 0})
		b := g.GenBundle()
		if i%3 == 0 {
			g.MutateWPlus(b)
			breakPureRefCycles(b)
		}
		add(&Case{Tid: fmt.Sprintf("g%d", i), Source: "gen", Seed: seed, Bundle: b, Names: g.Names.ToConcrete})
	}
	for i, f := range fixtureFiles() {
		if tier != "thorough" && i%3 != int(seed%3) {
			continue
		}
		cases = append(cases, &Case{Tid: fmt.Sprintf("f%d", i), Source: "fixture", Dir: filepath.Dir(f), Files: map[string]string{"root": f}, Names: map[string]string{}, Note: f})
	}
	reqs := make([]*Req, len(cases))
	for i, c := range cases {
		reqs[i] = c.Req("classify", nil)
	}
	pool := &Pool{Exe: selfExe(), N: nWorkers(), Timeout: 20 * time.Second}
	resps := pool.Run(reqs)
	pool.Confirm(reqs, resps, 40*time.Second)
	recs := []json.RawMessage{}
	for i, r := range resps {
		if r.Crash != "" {
			b, _ := json.Marshal(&classifyRec{Tid: cases[i].Tid, Doc: NewNode(), KnownFormats: []string{}, Entries: []classifyEntry{}, Crash: r.Crash})
			recs = append(recs, b)
			continue
		}
		if r.Err == "" && r.Rec != nil {
			recs = append(recs, r.Rec)
		}
	}
	tl, err := RunTraceValidation(scratch, "Trace_Classify", recs, 30*time.Minute)
	if err != nil || tl == nil || !tl.OK {
		rep.HarnessErr = append(rep.HarnessErr, fmt.Sprintf("Trace_Classify: %v", err))
		if tl != nil {
			rep.HarnessErr = append(rep.HarnessErr, tail(stripExports(tl.Out), 20))
		}
		return rep.Finish()
	}
	rep.States += tl.Distinct
	rep.Transitions += tl.Generated
	diags := map[string][]string{}
	for _, d := range tl.Diags {
		tid, _, _, _ := diagShape(d)
		diags[tid] = append(diags[tid], d)
	}
	positions := 0
	for i, c := range cases {
		r := resps[i]
		if r.Err != "" && r.Crash == "" {
			if c.Source != "fixture" {
				rep.HarnessErr = append(rep.HarnessErr, c.Tid+": "+r.Err)
			}
			continue
		}
		v, ok := tl.Verdicts[c.Tid]
		if !ok {
			rep.HarnessErr = append(rep.HarnessErr, "no verdict for "+c.Tid)
			continue
		}
		rep.Evaluations++
		st := tl.Stats[c.Tid]
		if len(st) >= 3 {
			positions += st[0]
			if st[1] > 0 || st[2] > 0 {
				rep.Distinct[c.Tid+hash8(string(r.Rec))] = true
				if len(rep.Samples) < 3 {
					rep.Samples = append(rep.Samples, map[string]any{"tid": c.Tid, "source": c.Source, "note": c.Note, "schema_positions": st[0], "ref_only_schemas": st[1], "self_containing": st[2]})
				}
			}
		}
		if v[prop] {
			rep.TracesOK++
			continue
		}
		sig, what := prop+":unclassified", "verdict false"
		if ds := diags[c.Tid]; len(ds) > 0 {
			_, _, clause, shape := diagShape(ds[0])
			sig = prop + ":" + clause + ":" + shape
			what = ds[0]
		}
		if r.Crash != "" {
			what += " " + firstLines(r.Detail, 4)
		}
		replay := c.SaveReplay(prop, "classify", nil, map[string]string{"diag.txt": strings.Join(diags[c.Tid], "\n") + "\n" + r.Detail, "record.json": string(r.Rec)})
		rep.AddViolation(Violation{Prop: prop, Tid: c.Tid, Sig: sig, What: "[" + c.Note + "] " + what, Replay: replay})
	}
	rep.Extra["schema_positions_classified"] = positions
	return rep.Finish()
}
